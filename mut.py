#!/usr/bin/env python3
"""Hand-made mutants of /repo for sensitivity testing (DESIGN.md §7).
usage: mut.py [name-substring ...]   -> applies each selected mutant to /repo's working tree, runs the quick checks
listed for it, restores the tree (git checkout), and prints / appends the outcome to SENSITIVITY.md.
A mutant must compile and pass the repository's own 144 tests to count (that is checked too)."""
import subprocess, sys, time, re

M = [
 # name, file, old, new, checks that must alarm
 ("c01-unsorted-cardinals", "src/lib.rs", "        v.sort();\n", "", ["C01"]),
 ("c03-exception-after-ignored", "src/subrule.rs", "&& (aft_expt_states.is_empty() || self.match_after_env(aft_expt_states, word, &end_pos, false, inc, false)?) {", "&& (aft_expt_states.is_empty() || true) {", ["C03"]),
 ("c03-syllbound-not-at-word-edge", "src/subrule.rs", "            } else {\n                Ok(pos.at_syll_start())\n            },", "            } else {\n                Ok(pos.at_syll_start() && word.in_bounds(*pos))\n            },", ["C03"]),
 ("c04-round-mask", "src/lexer.rs", "Self::Round               => (NodeKind::Labial, 0b01),", "Self::Round               => (NodeKind::Labial, 0b10),", ["C04"]),
 ("c04-setfeat-creates-node-on-negative", "src/seg.rs", "        } else if let Some(n) = self.get_node(node) {\n            self.set_node(node, Some(n & !(feat)))\n        }", "        } else {\n            let n = self.get_node(node).unwrap_or(0u8);\n            self.set_node(node, Some(n & !(feat)))\n        }", ["C04", "C18"]),
 ("c04-featmatch-true-on-absent-negative", "src/seg.rs", "        let Some(n) = self.get_node(node) else {\n            return false\n        };\n        if positive {", "        let Some(n) = self.get_node(node) else {\n            return !positive\n        };\n        if positive {", ["C04", "C18"]),
 ("c05-plus-long-makes-overlong", "src/syll.rs", "            [Some(long), None] => if long.as_bool(alphas, err_pos)? {\n                while seg_len < 2 {", "            [Some(long), None] => if long.as_bool(alphas, err_pos)? {\n                while seg_len < 3 {", ["C05"]),
 ("c05-minus-secstress-clears-primary", "src/syll.rs", "            } else if self.stress == StressKind::Secondary {\n                self.stress = StressKind::Unstressed;\n            },", "            } else {\n                self.stress = StressKind::Unstressed;\n            },", ["C05"]),
 ("c05-revert-long-cursor-fix", "src/subrule.rs", "REVERT:fix: after substituting a long segment", "", ["C05"]),
 ("c09-renderer-skips-prereq", "src/seg.rs", "if buf_seg.match_modifiers(&d.prereqs).is_ok() && self.match_modifiers(&d.payload).is_ok() {", "if self.match_modifiers(&d.payload).is_ok() {", ["C09"]),
 ("c09-tone-zero-digit-kept", "src/word.rs", "                    tone_buffer = tone_buffer.replace('0', \"\");\n", "", ["C09"]),
 ("c18-pharyngeal-mask", "src/place.rs", "                    *d = (*d & !0x03) | m as u16;", "                    *d = (*d & !0x01) | m as u16;", ["C18"]),
 ("c18-coronal-none-keeps-payload", "src/place.rs", "                *d &= !(Self::COR_BIT | Self::COR_LOW)", "                *d &= !(Self::COR_BIT)", ["C18"]),
 ("c02-revert-dollar-cursor", "src/subrule.rs", "REVERT:fix: keep the scan cursor at the matched boundary", "", ["C02"]),
 ("c02-deletion-no-advance", "src/subrule.rs", "                if let Some(next) = next_pos {\n                    pos.increment(&res_word);\n                    *next = pos;\n                }\n                Ok(res_word)\n            },\n            RuleType::Insertion", "                if let Some(next) = next_pos {\n                    *next = pos;\n                }\n                Ok(res_word)\n            },\n            RuleType::Insertion", ["C02"]),
 ("c02-only-seg-guard-removed", "src/subrule.rs", "                            if res_word.syllables.len() <= 1 && word.syllables[i.syll_index].segments.len() <= 1 {\n                                return Err(RuleRuntimeError::DeletionOnlySeg)\n                            }", "", ["C02", "C08"]),
]

def sh(cmd, **kw): return subprocess.run(cmd, shell=True, capture_output=True, text=True, **kw)

def apply(name, file, old, new):
    if old.startswith("REVERT:"):
        subj = old[len("REVERT:"):]
        h = sh(f"git -C /repo log --format='%h %s' | grep -F \"{subj}\" | head -1").stdout.split()
        if not h: return "no such commit"
        r = sh(f"cd /repo && git show {h[0]} | git apply -R")
        return None if r.returncode == 0 else r.stderr
    p = "/repo/" + file; s = open(p).read()
    if s.count(old) != 1: return f"pattern occurs {s.count(old)} times"
    open(p, "w").write(s.replace(old, new)); return None

def main():
    sel = sys.argv[1:]
    rows = []
    for name, file, old, new, checks in M:
        if sel and not any(x in name for x in sel): continue
        sh("git -C /repo checkout -- .")
        err = apply(name, file, old, new)
        if err: print(f"{name}: cannot apply ({err})"); rows.append((name, "not applied", err)); continue
        try:
            t = sh("cd /repo && cargo test --offline 2>&1 | grep -E 'test result|error(\\[|:)' | head -3")
            tests_ok = "144 passed; 0 failed" in t.stdout
            res = []
            for c in checks:
                t0 = time.time()
                r = sh(f"cd /verif && ./check {c} quick 2>/dev/null | grep -E '^VIOLATION|signature' | head -4")
                res.append((c, "VIOLATION" in r.stdout, round(time.time() - t0), r.stdout.strip().replace("\n", " ; ")[:300]))
        finally:
            sh("git -C /repo checkout -- .")
        for c, hit, secs, out in res:
            print(f"{name}: repo tests {'pass' if tests_ok else 'FAIL'}; {c} {'DETECTED' if hit else 'MISSED'} in {secs}s  {out}")
            rows.append((name, f"{c} {'detected' if hit else 'MISSED'} ({secs}s), repo tests {'pass' if tests_ok else 'fail'}", out))
    sh("git -C /repo checkout -- .")
    with open("/verif/SENSITIVITY.md", "a") as f:
        f.write(f"\n## run {time.strftime('%Y-%m-%d %H:%M')}\n\n")
        for name, res, out in rows: f.write(f"* `{name}` — {res}\n    * {out}\n")

main()
