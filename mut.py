#!/usr/bin/env python3
"""Hand-made mutants of /repo for sensitivity testing (DESIGN.md §7).
usage: mut.py [name-substring ...]   -> applies each selected mutant to /repo's working tree, runs the quick checks
listed for it, restores the tree (git checkout), and prints / appends the outcome to SENSITIVITY.md.
A mutant must compile and pass the repository's own 144 tests to count (that is checked too)."""
import subprocess, sys, time, re

def _save_evidence():
    import shutil, os
    shutil.rmtree("/verif/target/tmp/evidence.bak", ignore_errors=True); os.makedirs("/verif/target/tmp", exist_ok=True)
    shutil.copytree("/verif/evidence", "/verif/target/tmp/evidence.bak")
def _restore_evidence():
    # runs against a patched /repo must not leave their evidence behind: evidence files describe the unchanged tree only
    import shutil, os
    if os.path.isdir("/verif/target/tmp/evidence.bak"):
        shutil.rmtree("/verif/evidence", ignore_errors=True); shutil.copytree("/verif/target/tmp/evidence.bak", "/verif/evidence")
import atexit; _save_evidence(); atexit.register(_restore_evidence)

M = [
 # name, file, old, new, checks that must alarm
 ("c01-unsorted-cardinals", "src/lib.rs", "        v.sort();\n", "", ["C01"]),
 ("c03-exception-after-ignored", "src/subrule.rs", "&& (aft_expt_states.is_empty() || self.match_after_env(aft_expt_states, word, &end_pos, false, inc, false)?) {", "&& (aft_expt_states.is_empty() || true) {", ["C03"]),
 ("c03-syllbound-not-at-word-edge", "src/subrule.rs", "            } else {\n                Ok(pos.at_syll_start())\n            },", "            } else {\n                Ok(pos.at_syll_start() && word.in_bounds(*pos))\n            },", ["C03"]),
 ("c04-round-mask", "src/lexer.rs", "Self::Round               => (NodeKind::Labial, 0b01),", "Self::Round               => (NodeKind::Labial, 0b10),", ["C04"]),
 ("c04-setfeat-creates-node-on-negative", "src/seg.rs", "        } else if let Some(n) = self.get_node(node) {\n            self.set_node(node, Some(n & !(feat)))\n        }", "        } else {\n            let n = self.get_node(node).unwrap_or(0u8);\n            self.set_node(node, Some(n & !(feat)))\n        }", ["C04", "C18"]),
 ("c04-featmatch-true-on-absent-negative", "src/seg.rs", "        let Some(n) = self.get_node(node) else {\n            return false\n        };\n        if positive {", "        let Some(n) = self.get_node(node) else {\n            return !positive\n        };\n        if positive {", ["C04", "C18"]),
 ("c05-plus-long-makes-overlong", "src/syll.rs", "            [Some(long), None] => if long.as_bool(alphas, err_pos)? {\n                while seg_len < 2 {", "            [Some(long), None] => if long.as_bool(alphas, err_pos)? {\n                while seg_len < 3 {", ["C05"]),
 ("c05-minus-secstress-clears-primary", "src/syll.rs", "            } else if self.stress == StressKind::Secondary {\n                self.stress = StressKind::Unstressed;\n            },", "            } else {\n                self.stress = StressKind::Unstressed;\n            },", ["C05"]),
 ("c05-revert-long-cursor-fix", "src/subrule.rs", "REVERT:fix: after substituting a long segment", "", ["C05"]),
 ("c09-renderer-skips-prereq", "src/seg.rs", "if buf_seg.match_modifiers(&d.prereqs).is_ok() && self.match_modifiers(&d.payload).is_ok() {", "if self.match_modifiers(&d.payload).is_ok() {", ["C09"]),
 ("c08-tone-zero-digit-kept", "src/word.rs", "                    tone_buffer = tone_buffer.replace('0', \"\");\n", "", ["C08"]),
 ("c18-pharyngeal-mask", "src/place.rs", "                    *d = (*d & !0x03) | m as u16;", "                    *d = (*d & !0x01) | m as u16;", ["C18"]),
 ("c18-coronal-none-keeps-payload", "src/place.rs", "                *d &= !(Self::COR_BIT | Self::COR_LOW)", "                *d &= !(Self::COR_BIT)", ["C18"]),
 ("c02-revert-dollar-cursor", "src/subrule.rs", "REVERT:fix: keep the scan cursor at the matched boundary", "", ["C02"]),
 ("c02-deletion-no-advance", "src/subrule.rs", "                if let Some(next) = next_pos {\n                    pos.increment(&res_word);\n                    *next = pos;\n                }\n                Ok(res_word)\n            },\n            RuleType::Insertion", "                if let Some(next) = next_pos {\n                    *next = pos;\n                }\n                Ok(res_word)\n            },\n            RuleType::Insertion", ["C02"]),
 ("c02-only-seg-guard-removed", "src/subrule.rs", "                            if res_word.syllables.len() <= 1 && word.syllables[i.syll_index].segments.len() <= 1 {\n                                return Err(RuleRuntimeError::DeletionOnlySeg)\n                            }", "", ["C08"]),
 ("c06-transform-before-context", "src/subrule.rs", "                if !self.match_contexts_and_exceptions(&word, start, end, true)? {", "                if false && !self.match_contexts_and_exceptions(&word, start, end, true)? {", ["C06", "C03"]),
 ("c06-revert-ellipsis-fix", "src/subrule.rs", "REVERT:fix: elements after an ellipsis", "", ["C06"]),
 ("c07-var-captures-after-increment", "src/subrule.rs", "                self.variables.borrow_mut().insert(*v, VarKind::Segment(word.get_seg_at(*pos).unwrap()));\n            }\n            captures.push(MatchElement::Segment(*pos, None));", "                let mut p2 = *pos; p2.increment(word);\n                self.variables.borrow_mut().insert(*v, VarKind::Segment(word.get_seg_at(p2).unwrap_or(word.get_seg_at(*pos).unwrap())));\n            }\n            captures.push(MatchElement::Segment(*pos, None));", ["C07"]),
 ("c06-revert-set-syll-fix", "src/subrule.rs", "REVERT:fix: a syllable inside an input set", "", ["C06"]),
 ("c06-revert-syllvar-fix", "src/subrule.rs", "REVERT:fix: a syllable variable in the input", "", ["C06"]),
 ("c07-revert-structure-capture", "src/subrule.rs", "REVERT:fix: a structure in the input bound to a variable", "", ["C07", "C02"]),
 ("c08-empty-syllable-kept-after-deletion", "src/subrule.rs", "                            res_word.syllables[i.syll_index].segments.remove(i.seg_index);\n                            // if that was the only segment in that syllable, remove the syllable\n                            if res_word.syllables[i.syll_index].segments.is_empty() {", "                            res_word.syllables[i.syll_index].segments.remove(i.seg_index);\n                            // if that was the only segment in that syllable, remove the syllable\n                            if false && res_word.syllables[i.syll_index].segments.is_empty() {", ["C08"]),
 ("c08-tone-concat-not-capped", "src/subrule.rs", "        if nums.len() > 4 {\n            // Somehow meld", "        if nums.len() > 5 {\n            // Somehow meld", ["C08"]),
 ("c10-alphas-leak-across-rules", "src/subrule.rs", "        loop {\n            #[cfg(feature = \"verif\")] crate::verif::tick_growth(100, &word);\n            self.alphas.borrow_mut().clear();", "        loop {\n            #[cfg(feature = \"verif\")] crate::verif::tick_growth(100, &word);\n            if false { self.alphas.borrow_mut().clear(); }", ["C04", "C11", "C03"]),
 ("c11-output-order-reversed-for-3-words", "src/lib.rs", "        transformed_phrases.push(transformed_phrase);\n    }\n\n    Ok(transformed_phrases)", "        transformed_phrases.push(transformed_phrase);\n    }\n    if transformed_phrases.len() == 3 { transformed_phrases.swap(0, 2); }\n\n    Ok(transformed_phrases)", ["C11", "C01"]),
 ("c12-P-group-sonorant", "src/parser.rs", "\"P\" => vec![CONS_P, SONR_M, SYLL_M, DLRL_M, CONT_M],", "\"P\" => vec![CONS_P, SONR_P, SYLL_M, DLRL_M, CONT_M],", ["C12"]),
 ("c12-special-env-not-mirrored", "src/parser.rs", "after: x.into_iter().rev().collect(), position}]), position)", "after: x.into_iter().collect(), position}]), position)", ["C12"]),
 ("c13-alias-lexer-voi-typo", "src/alias/lexer.rs", "\"voice\"          | \"voi\"", "\"voice\"          | \"vio\"", ["C13"]),
 ("c13-rule-lexer-lo-removed", "src/lexer.rs", "\"low\"     | \"lw\"    | \"lo\" ", "\"low\"     | \"lw\"    | \"lq\" ", ["C13"]),
 ("c13-revert-followset-fix", "src/parser.rs", "REVERT:fix: accept `//` and a trailing", "", ["C13"]),
 ("c14-boundary-deletion-drops-tone-merge-keeps-segments-swapped", "src/subrule.rs", "                            let mut syll_segs = res_word.syllables[i].segments.clone();\n                            res_word.syllables[i-1].segments.append(&mut syll_segs);\n\n                            res_word.syllables[i-1].stress = match (res_word.syllables[i-1].stress, res_word.syllables[i].stress) {\n                                (StressKind::Primary, _) | (_, StressKind::Primary) => StressKind::Primary,\n                                (StressKind::Secondary, StressKind::Secondary)", "                            let mut syll_segs = res_word.syllables[i].segments.clone();\n                            syll_segs.make_contiguous().reverse();\n                            res_word.syllables[i-1].segments.append(&mut syll_segs);\n\n                            res_word.syllables[i-1].stress = match (res_word.syllables[i-1].stress, res_word.syllables[i].stress) {\n                                (StressKind::Primary, _) | (_, StressKind::Primary) => StressKind::Primary,\n                                (StressKind::Secondary, StressKind::Secondary)", ["C14"]),
 ("c14-feature-change-resets-tone", "src/syll.rs", "            seg.apply_seg_mods(alphas, mods.nodes, mods.feats, err_pos, false)?;\n            seg_len -= 1;", "            seg.apply_seg_mods(alphas, mods.nodes, mods.feats, err_pos, false)?;\n            if mods.feats[6].is_some() { self.tone = 0; }\n            seg_len -= 1;", ["C14"]),
 ("c15-romaniser-strips-tone-always", "src/word.rs", "            if !strip_tone && syll.tone != 0{", "            if false && !strip_tone && syll.tone != 0{", ["C15"]),
 ("c15-deromaniser-long-gives-overlong", "src/word.rs", "                    BinMod::Positive => Ok(Some(2)),\n                    BinMod::Negative => Ok(Some(1)),\n                },\n                ModKind::Alpha(_) => unreachable!(),\n            },\n            [Some(long), Some(over)]", "                    BinMod::Positive => Ok(Some(3)),\n                    BinMod::Negative => Ok(Some(1)),\n                },\n                ModKind::Alpha(_) => unreachable!(),\n            },\n            [Some(long), Some(over)]", ["C15"]),
 ("c16-trace-compares-with-original", "src/lib.rs", "        if res_phrase != res_step {", "        if res_phrase != *phrase {", ["C16"]),
 ("c16-trace-string-name-offbyone", "src/lib.rs", "rules[change.rule_index].name", "rules[change.rule_index.saturating_sub(1)].name", ["C16"]),
 ("c17-token-line-plus-one", "src/lexer.rs", "Self { kind, value: Rc::from(value), position: Position::new(group, line, start, end) }", "Self { kind, value: Rc::from(value), position: Position::new(group, if group == 2 { line + 1 } else { line }, start, end) }", ["C17"]),
 ("c17-revert-caret-fix", "src/error/runtime.rs", "REVERT:fix: the second caret span", "", ["C17"]),
 ("c19-rsca-group-ends-on-any-blank-line", "src/cli/parse.rs", "            if !r.is_empty() && !r.description.is_empty() {", "            if !r.is_empty() {", ["C19"]),
 ("c19-revert-conv-json-swap", "src/main.rs", "REVERT:fix: `asca conv json` passed", "", ["C19"]),
 ("c19-wsca-comment-kept-when-two-hashes", "src/cli/parse.rs", "        let word = line_iter.next().unwrap().trim().to_owned();", "        let word = if line.matches('#').count() >= 2 { line.trim().to_owned() } else { line_iter.next().unwrap().trim().to_owned() };", ["C19"]),
 ("c20-only-filter-keeps-file-order", "src/cli/config/parser.rs", "                let mut entries = Vec::new();\n                for filter in &filters {\n                    match entry_rules.iter().find(|r| r.name.to_lowercase() == filter.to_lowercase()) {\n                        Some(entry) => entries.push(entry.clone()),\n                        None => return Err(self.error(format!(\"Could not find rule '{}' in '{}'.\\nMake sure the rule name matches exactly!\", filter, rule_file))),\n                    }\n                }", "                let entries: Vec<RuleGroup> = entry_rules.iter().filter(|r| filters.iter().any(|f| f.to_lowercase() == r.name.to_lowercase())).cloned().collect();", ["C20"]),
 ("c20-cycle-check-only-self-loops", "src/cli/config/parser.rs", "            if !set.insert(from.to_string()) {\n                return true\n            }", "            if from.as_ref() == head.tag.as_ref() {\n                return true\n            }\n            if !set.insert(from.to_string()) { return false }", ["C20"]),
 ("c20-exclude-filter-case-sensitive", "src/cli/config/parser.rs", "let entries = entry_rules.iter().filter(|r| !filters.contains(&r.name.to_lowercase())).cloned().collect::<Vec<_>>();", "let entries = entry_rules.iter().filter(|r| !filters.contains(&r.name)).cloned().collect::<Vec<_>>();", ["C20"]),
]

def sh(cmd, **kw): return subprocess.run(cmd, shell=True, capture_output=True, text=True, **kw)

def apply(name, file, old, new):
    if old.startswith("REVERT:"):
        subj = old[len("REVERT:"):]
        log = subprocess.run(["git", "-C", "/repo", "log", "--format=%h %s"], capture_output=True, text=True).stdout.splitlines()
        h = [l.split()[0] for l in log if subj in l]
        if not h: return "no such commit"
        r = sh(f"cd /repo && git show {h[0]} | git apply -R")
        return None if r.returncode == 0 else r.stderr
    p = "/repo/" + file; s = open(p).read()
    if s.count(old) != 1: return f"pattern occurs {s.count(old)} times"
    open(p, "w").write(s.replace(old, new)); return None

def main():
    sel = sys.argv[1:]
    rows = []
    for name, file, old, new, checks in M:
        if sel and not any(x in name for x in sel): continue
        sh("git -C /repo checkout -- .")
        err = apply(name, file, old, new)
        if err: print(f"{name}: cannot apply ({err})"); rows.append((name, "not applied", err)); continue
        try:
            t = sh("cd /repo && cargo test --offline 2>&1 | grep -E 'test result|^error' | head -3")
            tests_ok = "144 passed; 0 failed" in t.stdout
            if "error" in t.stdout and "test result" not in t.stdout: print(f"{name}: DOES NOT COMPILE"); rows.append((name, "does not compile", t.stdout[:200])); continue
            res = []
            for c in checks:
                t0 = time.time()
                r = sh(f"cd /verif && ./check {c} quick 2>/dev/null | grep -E '^VIOLATION|signature' | head -4")
                res.append((c, "VIOLATION" in r.stdout, round(time.time() - t0), r.stdout.strip().replace("\n", " ; ")[:300]))
        finally:
            sh("git -C /repo checkout -- .")
        for c, hit, secs, out in res:
            print(f"{name}: repo tests {'pass' if tests_ok else 'FAIL'}; {c} {'DETECTED' if hit else 'MISSED'} in {secs}s  {out}")
            rows.append((name, f"{c} {'detected' if hit else 'MISSED'} ({secs}s), repo tests {'pass' if tests_ok else 'fail'}", out))
    sh("git -C /repo checkout -- .")
    with open("/verif/SENSITIVITY.md", "a") as f:
        f.write(f"\n## run {time.strftime('%Y-%m-%d %H:%M')}\n\n")
        for name, res, out in rows: f.write(f"* `{name}` — {res}\n    * {out}\n")

main()
