#!/bin/bash
# runs every registered check (tier $1, default quick) on the current /repo tree; prints one line per check
tier=${1:-quick}
for id in $(python3 -c "import json;print(' '.join(c['property_id'] for c in json.load(open('/verif/MANIFEST.json'))['checks']))"); do
  out=$(./check $id $tier 2>/dev/null); code=$?
  echo "$id exit=$code $(echo "$out" | grep -c '^VIOLATION') violations, $(echo "$out" | grep -c '^KNOWN-FINDING') known; $(echo "$out" | tail -1)"
done
