#!/usr/bin/env python3
"""seeded_run.py [<dir name> ...]   (default: every directory under /verif/seeded)
Applies each stored seeded change to /repo (git apply), runs the quick tier of the check(s) named in its meta.json
("expected_checks", default: the check of the property itself), reverts /repo (git checkout -- .) and records the outcome in
meta.json ("checks") and in /verif/seeded/RESULTS.md.  Needs a clean /repo working tree; nothing is committed there."""
import json, os, subprocess, sys, time

def _save_evidence():
    import shutil, os
    shutil.rmtree("/verif/target/tmp/evidence.bak", ignore_errors=True); os.makedirs("/verif/target/tmp", exist_ok=True)
    shutil.copytree("/verif/evidence", "/verif/target/tmp/evidence.bak")
def _restore_evidence():
    # runs against a patched /repo must not leave their evidence behind: evidence files describe the unchanged tree only
    import shutil, os
    if os.path.isdir("/verif/target/tmp/evidence.bak"):
        shutil.rmtree("/verif/evidence", ignore_errors=True); shutil.copytree("/verif/target/tmp/evidence.bak", "/verif/evidence")
import atexit; _save_evidence(); atexit.register(_restore_evidence)

def sh(cmd, cwd=None):
    r = subprocess.run(cmd, shell=True, capture_output=True, text=True, cwd=cwd)
    return r.returncode, r.stdout + r.stderr

names = sys.argv[1:] or sorted(d for d in os.listdir("/verif/seeded") if os.path.isdir(f"/verif/seeded/{d}"))
rc, st = sh("git -C /repo status --short")
assert st.strip() == "", "/repo working tree is not clean"
rows = []
for name in names:
    d = f"/verif/seeded/{name}"; meta = json.load(open(f"{d}/meta.json"))
    checks = meta.get("expected_checks") or [meta["property"]]
    rc, out = sh(f"git -C /repo apply {d}/patch.diff")
    if rc != 0: print(f"[{name}] patch does not apply: {out}"); rows.append((name, meta["property"], "patch does not apply", "")); continue
    try:
        for c in checks:
            t0 = time.time()
            rc, out = sh(f"./check {c} quick 2>/dev/null", cwd="/verif")
            lines = [l.strip() for l in out.splitlines() if l.startswith("VIOLATION") or l.strip().startswith("signature:")]
            det = rc == 1 and any(l.startswith("VIOLATION") for l in lines)
            meta.setdefault("checks", {})[c] = {"exit": rc, "detected": det, "seconds": round(time.time() - t0), "lines": lines[:6]}
            sig = next((l for l in lines if l.startswith("signature:")), "")
            print(f"[{name}] check {c}: exit {rc} {'DETECTED' if det else 'MISSED'} in {round(time.time() - t0)}s {sig[:160]}", flush=True)
            rows.append((name, c, "detected" if det else f"MISSED (exit {rc})", sig[:200]))
    finally:
        sh("git -C /repo checkout -- .")
    json.dump(meta, open(f"{d}/meta.json", "w"), indent=1, ensure_ascii=False)
if not sys.argv[1:]:
    with open("/verif/seeded/RESULTS.md", "w") as f:
        f.write("# Seeded changes (sub-agent written) against the quick tier\n\nRegenerate with `python3 seeded_run.py`.\n\n| seeded change | check | outcome | first signature |\n|---|---|---|---|\n")
        for r in rows: f.write("| " + " | ".join(x.replace("|", "\\|") for x in r) + " |\n")
