#!/usr/bin/env python3
"""Validates MANIFEST.json and every evidence file against the given schemas (needs jsonschema: run with python3-vt)."""
import json, sys, glob, jsonschema
ok = True
m = json.load(open('/verif/MANIFEST.json')) if len(sys.argv) < 2 or sys.argv[1] != '--evidence-only' else None
if m is not None:
    jsonschema.validate(m, json.load(open('/root/.vp/MANIFEST.schema.json')))
    print("MANIFEST.json valid;", len(m['checks']), "checks,", len(m.get('not_applicable', [])), "not_applicable")
s = json.load(open('/root/.vp/EVIDENCE.schema.json'))
for f in sorted(glob.glob('/verif/evidence/*.json')):
    try:
        jsonschema.validate(json.load(open(f)), s); print(f, "valid")
    except Exception as e:
        ok = False; print(f, "INVALID:", str(e)[:300])
sys.exit(0 if ok else 1)
