#!/bin/bash
# MANIFEST.setup_cmd: build the harness (and through it /repo with the `verif` feature) and the asca CLI, offline.
set -e
export CARGO_NET_OFFLINE=true
mkdir -p /verif/target /verif/evidence
cd /verif/harness
cargo build --release --offline
cargo build --release --offline --bin asca --manifest-path /repo/Cargo.toml --target-dir /verif/target/cli
echo "setup ok"
