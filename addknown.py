#!/usr/bin/env python3
"""addknown.py <PROP> '<what fails>' '<json case>'  — replays the case, takes its signature, appends a known: line and a regress witness."""
import sys, json, subprocess, hashlib, re
prop, what, case = sys.argv[1], sys.argv[2], json.loads(sys.argv[3])
tmp = f"/tmp/addknown_{prop}.json"; json.dump({"case": case}, open(tmp, "w"), ensure_ascii=False)
out = subprocess.run(["/verif/target/release/vh", "replay", prop, tmp], capture_output=True, text=True).stdout
m = re.search(r"signature: (.*)", out)
if not m: print("case does not fail:", out); sys.exit(1)
sig = m.group(1).strip()
txt = open("/verif/known_findings.txt").read()
head, tail = txt.split("\nfixed:", 1)
if f"property={prop} | {sig} |" not in head: head += f"known: property={prop} | {sig} | {what}\n"
open("/verif/known_findings.txt", "w").write(head + "\nfixed:" + tail)
h = hashlib.sha1((sig + json.dumps(case)).encode()).hexdigest()[:12]
import os; os.makedirs(f"/verif/regress/{prop}", exist_ok=True)
json.dump({"property": prop, "expect": "known", "signature": sig, "case": case}, open(f"/verif/regress/{prop}/known_{h}.json", "w"), ensure_ascii=False, indent=1)
print("added", sig)
