//! libFuzzer target for C02: bytes -> {mode, rule lines, word lines, alias lines}; the oracle (no panic, step budget not
//! exhausted, formatter total) is inside the target. Listed known findings are tolerated so the campaign continues past them;
//! anything else writes the decoded case to /verif/target/tmp/fz/<hash>.json and aborts (libFuzzer keeps the input);
//! the harness re-checks every written case with its own (exact) signatures.
#![no_main]

use arbitrary::Unstructured;
use libfuzzer_sys::fuzz_target;

#[path = "../../../harness/src/api.rs"]
mod api;

use std::sync::OnceLock;

fn known() -> &'static Vec<String> {
    static K: OnceLock<Vec<String>> = OnceLock::new();
    K.get_or_init(|| {
        let txt = std::fs::read_to_string("/verif/known_findings.txt").unwrap_or_default();
        txt.lines().filter_map(|l| l.trim().strip_prefix("known:")).filter_map(|r| { let p: Vec<&str> = r.splitn(3, " | ").collect(); if p.len() == 3 && p[0].trim() == "property=C02" { Some(p[1].trim().to_string()) } else { None } }).collect()
    })
}
/// 2 = listed exactly; 1 = a listed panic with the same file and message but another function name (the innermost
/// non-inlined frame depends on the build: this ASan build does not inline like the harness build) — tolerated in-target so
/// that the campaign continues, but the case is still written out (once per signature and process) for the harness to re-check;
/// 0 = not listed.
fn known_level(sig: &str) -> u8 {
    let mut best = 0;
    for k in known().iter() {
        if k == sig { return 2 }
        let (a, b): (Vec<&str>, Vec<&str>) = (k.split('|').collect(), sig.split('|').collect());
        if a.len() == 6 && b.len() == 6 && a[0] == "panic" && a[0] == b[0] && a[1] == b[1] && a[3] == b[3] && a[4] == b[4] && a[5] == b[5] { best = 1 }
    }
    best
}
fn seen_once(sig: &str) -> bool {
    static S: OnceLock<std::sync::Mutex<std::collections::HashSet<String>>> = OnceLock::new();
    S.get_or_init(Default::default).lock().map(|mut s| s.insert(sig.to_string())).unwrap_or(false)
}

const PIECES: &[&str] = &["a", "e", "i", "o", "u", "p", "t", "k", "s", "n", "m", "r", "l", "ʔ", "ŋ", "ǀ", "t͡s", "ʰ", "ʷ", "ː", ".", "ˈ", "5", "51", " ", "[", "]", "{", "}", "(", ")", "<", ">", ":{", "}:", "=", "=>", "/", "//", "|", "_", "#", "$", "%", "*", "&", "+", "-", "...", ",", ":", ";;",
    "α", "-α", "C", "V", "O", "1", "2", "0", "cons", "voice", "long", "stress", "tone:5", "place", "lab", "[+voice]", "[-long]", "%:[+stress]", "=1", "> *", "> &", "* >", " / ", " | ", "(C,0)", "([],0)", "{p, t}", "<C V>", "@{acute}", "\\", "ж"];

fn text(u: &mut Unstructured, raw: bool) -> String {
    if raw { let n = u.int_in_range(0..=40).unwrap_or(0); let b = u.bytes(n.min(u.len())).unwrap_or(&[]); return String::from_utf8_lossy(b).into_owned() }
    let n = u.int_in_range(0..=14).unwrap_or(0);
    (0..n).map(|_| *u.choose(PIECES).unwrap_or(&"a")).collect()
}

fuzz_target!(|data: &[u8]| {
    api::init();
    let mut u = Unstructured::new(data);
    let mode = u.int_in_range(0..=3u8).unwrap_or(0);
    let nrules = u.int_in_range(1..=3).unwrap_or(1);
    let rules: Vec<String> = (0..nrules).map(|_| text(&mut u, mode == 0)).collect();
    let nwords = u.int_in_range(1..=2).unwrap_or(1);
    let words: Vec<String> = (0..nwords).map(|_| text(&mut u, mode == 1)).collect();
    let raw_alias = u.len() % 2 == 0;
    let into: Vec<String> = if mode == 2 { vec![text(&mut u, raw_alias)] } else { vec![] };
    let from: Vec<String> = if mode == 3 { vec![text(&mut u, raw_alias)] } else { vec![] };
    let groups = vec![asca::RuleGroup::from_rules(rules.clone())];
    let r: u64 = rules.iter().map(|s| 1 + s.chars().count() as u64).sum::<u64>() + 1;
    let w: u64 = words.iter().map(|s| 1 + s.chars().count() as u64).sum::<u64>() + 1;
    let budget = (20_000 + 40 * r * w).min(4_000_000);
    let mut bad: Option<String> = None;
    match api::guarded(budget, || asca::run(&groups, &words, &into, &from)) {
        Err(a) => bad = Some(a.signature()),
        Ok(Err(e)) => if let Err(a) = api::format_error(&e, &groups, &words, &into, &from) { bad = Some(format!("format|{}", a.signature())) },
        Ok(Ok(_)) => {}
    }
    if bad.is_none() { if let Some(w0) = words.first() {
        if let Err(a) = api::guarded(budget, || asca::get_trace_string(&groups, w0.clone(), &into)) { bad = Some(a.signature()) }
        else if let Err(a) = api::guarded(budget, || asca::trace_changes(&groups, w0.clone(), &into).map(|c| c.len())) { bad = Some(a.signature()) }
    } }
    if let Some(sig) = bad {
        let lvl = known_level(&sig);
        if lvl == 0 || (lvl == 1 && seen_once(&sig)) {
            let case = serde_json::json!({"source": "libfuzzer", "groups": [rules], "words": words, "into": into, "from": from, "signature": sig});
            let _ = std::fs::create_dir_all("/verif/target/tmp/fz");
            let mut h: u64 = 0xcbf29ce484222325; for b in case.to_string().bytes() { h ^= b as u64; h = h.wrapping_mul(0x100000001b3); }
            let _ = std::fs::write(format!("/verif/target/tmp/fz/{h:016x}.json"), case.to_string());
            if lvl == 0 { std::process::abort(); }
        }
    }
});
