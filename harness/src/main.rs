mod api;
mod core;
mod model;
mod gen;
mod props;

use crate::core::{Property, Tier};

fn usage() -> ! {
    eprintln!("usage: vh run <ID> quick|thorough | vh replay <ID> <file> | vh worker <ID> <tier> <seed> <shard> <n> | vh list");
    std::process::exit(2)
}

fn main() {
    let args: Vec<String> = std::env::args().collect();
    if args.len() < 2 { usage() }
    let all = props::all();
    let find = |id: &str| -> &dyn Property {
        match all.iter().find(|p| p.id() == id) { Some(p) => p.as_ref(), None => { eprintln!("unknown property {id}"); std::process::exit(2) } }
    };
    let tier_of = |s: &str| match s { "quick" => Tier::Quick, "thorough" => Tier::Thorough, _ => usage() };
    let seed: u64 = std::env::var("VERIF_SEED").ok().and_then(|s| s.trim().parse::<i64>().ok()).map(|v| v as u64).unwrap_or(1);
    match args[1].as_str() {
        "list" => { for p in &all { println!("{}", p.id()); } }
        "run" if args.len() >= 3 => {
            let tier = match args.get(3) { Some(t) => tier_of(t), None => tier_of(&std::env::var("VERIF_TIER").unwrap_or("quick".into())) };
            std::process::exit(core::driver_main(find(&args[2]), tier, seed));
        }
        "replay" if args.len() >= 4 => std::process::exit(core::replay_main(find(&args[2]), &args[3])),
        "worker" if args.len() >= 7 => {
            let p = find(&args[2]);
            core::worker_main(p, tier_of(&args[3]), args[4].parse().unwrap_or(1), args[5].parse().unwrap_or(0), args[6].parse().unwrap_or(1));
        }
        "c01-transcript" if args.len() >= 3 => {
            api::init();
            let case: serde_json::Value = serde_json::from_str(&std::fs::read_to_string(&args[2]).unwrap_or_default()).unwrap_or_default();
            println!("{}", props::c01::transcript_of(&case).0);
        }
        "probe" => props::probe(&args[2..]),
        _ => usage(),
    }
}
