//! Driver / worker machinery shared by all properties: seeding, sharding over worker processes,
//! proptest batches over a choice tape, violation + known-finding bookkeeping, evidence, replay.

use proptest::prelude::*;
use proptest::test_runner::{Config, RngAlgorithm, RngSeed, TestCaseError, TestError, TestRng, TestRunner};
use serde_json::{json, Value};
use std::collections::{BTreeMap, BTreeSet, HashSet};
use std::io::{BufRead, BufReader, Write};
use std::process::{Command, Stdio};
use std::time::{Duration, Instant};

pub const VERIF: &str = "/verif";

#[derive(Clone, Copy, PartialEq, Eq, Debug)]
pub enum Tier { Quick, Thorough }
impl Tier {
    pub fn name(self) -> &'static str { match self { Tier::Quick => "quick", Tier::Thorough => "thorough" } }
    /// picks `q` in the quick tier, `t` in the thorough tier
    pub fn pick<T>(self, q: T, t: T) -> T { match self { Tier::Quick => q, Tier::Thorough => t } }
}

/// What a check says about one case.
#[derive(Debug, Clone)]
pub enum Outcome {
    /// property held; `nontrivial` is a hash identifying the case if it is non-trivial by the property's rule
    Pass { nontrivial: Option<u64>, class: Vec<String> },
    /// case outside the property's domain (precondition failed, call returned Err where only Ok is judged, …)
    Skip(String),
    /// property violated
    Fail { signature: String, detail: Value },
}
impl Outcome {
    pub fn pass() -> Self { Outcome::Pass { nontrivial: None, class: vec![] } }
    pub fn pass_nt(h: u64) -> Self { Outcome::Pass { nontrivial: Some(h), class: vec![] } }
    pub fn skip(s: &str) -> Self { Outcome::Skip(s.to_string()) }
    pub fn fail(sig: impl Into<String>, detail: Value) -> Self { Outcome::Fail { signature: sig.into(), detail } }
    pub fn with_class(mut self, c: impl Into<String>) -> Self { if let Outcome::Pass { class, .. } = &mut self { class.push(c.into()) } self }
}

pub fn hash64<T: std::hash::Hash + ?Sized>(t: &T) -> u64 {
    // FNV-1a based, fixed (no per-process seed): identical in every worker
    struct Fnv(u64);
    impl std::hash::Hasher for Fnv {
        fn finish(&self) -> u64 { self.0 }
        fn write(&mut self, bytes: &[u8]) { for b in bytes { self.0 ^= *b as u64; self.0 = self.0.wrapping_mul(0x100000001b3); } }
    }
    let mut h = Fnv(0xcbf29ce484222325);
    t.hash(&mut h);
    let mut x = std::hash::Hasher::finish(&h);
    x ^= x >> 33; x = x.wrapping_mul(0xff51afd7ed558ccd); x ^= x >> 33;
    x
}

// ------------------------------------------------------------------------------------------------
// Choice tape: every random decision of every generator is drawn from a proptest-generated Vec<u32>.

pub struct Tape<'a> { data: &'a [u32], pos: usize }
impl<'a> Tape<'a> {
    pub fn new(data: &'a [u32]) -> Self { Tape { data, pos: 0 } }
    #[inline] pub fn raw(&mut self) -> u32 { let v = self.data.get(self.pos).copied().unwrap_or(0); self.pos += 1; v }
    /// uniform in 0..n, monotone in the underlying value (0 is the "simplest" choice)
    #[inline] pub fn pick(&mut self, n: usize) -> usize { if n <= 1 { self.pos += 1; return 0 } ((self.raw() as u64 * n as u64) >> 32) as usize }
    #[inline] pub fn range(&mut self, lo: usize, hi_incl: usize) -> usize { lo + self.pick(hi_incl - lo + 1) }
    /// true with probability num/den; false is the simplest choice
    #[inline] pub fn chance(&mut self, num: u32, den: u32) -> bool { (self.pick(den as usize) as u32) >= den - num }
    pub fn choose<'b, T>(&mut self, xs: &'b [T]) -> &'b T { &xs[self.pick(xs.len())] }
    /// weighted choice; index 0 should be the simplest alternative
    pub fn weighted(&mut self, ws: &[u32]) -> usize {
        let total: u32 = ws.iter().sum();
        let mut r = self.pick(total as usize) as u32;
        for (i, w) in ws.iter().enumerate() { if r < *w { return i } r -= *w; }
        ws.len() - 1
    }
    pub fn exhausted(&self) -> bool { self.pos >= self.data.len() }
}

// ------------------------------------------------------------------------------------------------
// Known findings

#[derive(Clone, Debug)]
pub struct Known { pub property: String, pub signature: String, pub what: String, pub listed_as: String }

pub fn load_known(prop: &str) -> Vec<Known> {
    let mut out = vec![];
    let Ok(txt) = std::fs::read_to_string(format!("{VERIF}/known_findings.txt")) else { return out };
    for line in txt.lines() {
        let line = line.trim();
        if let Some(rest) = line.strip_prefix("known:") {
            let parts: Vec<&str> = rest.splitn(3, " | ").map(|s| s.trim()).collect();
            if parts.len() == 3 {
                if let Some(p) = parts[0].strip_prefix("property=") {
                    if p != prop { continue }
                    if let Some(file) = parts[1].strip_prefix('@') {
                        // a data file with one exact signature per line; all of them belong to this one finding
                        let body = std::fs::read_to_string(format!("{VERIF}/{file}")).unwrap_or_default();
                        for sig in body.lines().map(|l| l.trim()).filter(|l| !l.is_empty() && !l.starts_with('#')) {
                            out.push(Known { property: p.to_string(), signature: sig.to_string(), what: parts[2].to_string(), listed_as: parts[1].to_string() });
                        }
                    } else {
                        out.push(Known { property: p.to_string(), signature: parts[1].to_string(), what: parts[2].to_string(), listed_as: parts[1].to_string() });
                    }
                }
            }
        }
    }
    out
}

pub fn is_known(prop: &str, sig: &str) -> bool { load_known(prop).iter().any(|k| sig_matches(&k.signature, sig)) }

fn sig_matches(known: &str, sig: &str) -> bool {
    if let Some(prefix) = known.strip_suffix('*') { return sig.starts_with(prefix) }
    if known == sig { return true }
    // a panic whose enclosing function could not be symbolised ("?") matches on file and message
    let (k, s): (Vec<&str>, Vec<&str>) = (known.split('|').collect(), sig.split('|').collect());
    k.len() == 6 && s.len() == 6 && k[0] == "panic" && s[0] == "panic" && s[2] == "?" && k[1] == s[1] && k[3] == s[3] && k[4] == s[4] && k[5] == s[5]
}

// ------------------------------------------------------------------------------------------------
// Worker-side context

pub struct Ctx {
    pub prop: String,
    pub tier: Tier,
    pub seed: u64,
    pub shard: usize,
    pub nshards: usize,
    pub evaluations: u64,
    pub skipped: u64,
    nontrivial: HashSet<u64>,
    nontrivial_capped: bool,
    pub classes: BTreeMap<String, u64>,
    pub skips: BTreeMap<String, u64>,
    samples: Vec<Value>,
    sample_seen: u64,
    pub extra: BTreeMap<String, Value>,
    known: Vec<Known>,
    pub known_hits: BTreeMap<String, u64>,
    pub violations: Vec<(String, String)>, // (signature, replay path)
    seen_sigs: HashSet<String>,
    pub counting: bool,
    /// when shrinking: only failures with this signature count as failures
    pub shrink_target: Option<String>,
    pub track_inflight: bool,
    pub replay_mode: bool,
    pub strict: bool, // replay: known findings are reported as failures too
    lcg: u64,
}

const NT_CAP: usize = 6_000_000;

impl Ctx {
    pub fn new(prop: &str, tier: Tier, seed: u64, shard: usize, nshards: usize) -> Self {
        Ctx {
            prop: prop.to_string(), tier, seed, shard, nshards, evaluations: 0, skipped: 0,
            nontrivial: HashSet::new(), nontrivial_capped: false, classes: BTreeMap::new(), skips: BTreeMap::new(),
            samples: vec![], sample_seen: 0, extra: BTreeMap::new(), known: load_known(prop), known_hits: BTreeMap::new(),
            violations: vec![], seen_sigs: HashSet::new(), counting: true, shrink_target: None, track_inflight: false,
            replay_mode: false, strict: false, lcg: 0x9E3779B97F4A7C15 ^ (shard as u64).wrapping_mul(0xD1B54A32D192ED03),
        }
    }

    pub fn class(&mut self, c: &str) { if self.counting { *self.classes.entry(c.to_string()).or_insert(0) += 1; } }
    pub fn add_extra(&mut self, k: &str, n: u64) {
        let e = self.extra.entry(k.to_string()).or_insert(json!(0));
        *e = json!(e.as_u64().unwrap_or(0) + n);
    }
    pub fn max_extra(&mut self, k: &str, n: u64) {
        let e = self.extra.entry(k.to_string()).or_insert(json!(0));
        if n > e.as_u64().unwrap_or(0) { *e = json!(n); }
    }

    /// Deterministic reservoir sampling of cases for the evidence file (not part of any property decision).
    pub fn sample(&mut self, f: impl FnOnce() -> Value) {
        if !self.counting { return }
        self.sample_seen += 1;
        if self.samples.len() < 6 { self.samples.push(f()); return }
        self.lcg = self.lcg.wrapping_mul(6364136223846793005).wrapping_add(1442695040888963407);
        let r = (self.lcg >> 33) % self.sample_seen;
        if (r as usize) < 6 && r >= 2 { self.samples[r as usize] = f(); }
    }

    pub fn inflight(&self, case: &Value) {
        if self.track_inflight {
            let p = format!("{VERIF}/target/tmp/{}.{}.inflight", self.prop, self.shard);
            let _ = std::fs::write(p, case.to_string());
        }
    }

    /// Records the outcome of one case. Returns true when the case counts as a *failure* for the
    /// caller (a violation that is not a listed known finding, and — during shrinking — has the target signature).
    pub fn record(&mut self, case: &Value, out: &Outcome) -> bool {
        match out {
            Outcome::Pass { nontrivial, class } => {
                if self.counting {
                    self.evaluations += 1;
                    if let Some(h) = nontrivial {
                        if self.nontrivial.len() < NT_CAP { self.nontrivial.insert(*h); } else { self.nontrivial_capped = true; }
                    }
                    for c in class { *self.classes.entry(c.clone()).or_insert(0) += 1; }
                    if nontrivial.is_some() || self.sample_seen < 3 { self.sample(|| case.clone()); }
                }
                false
            }
            Outcome::Skip(why) => {
                if self.counting { self.evaluations += 1; self.skipped += 1; *self.skips.entry(why.clone()).or_insert(0) += 1; }
                false
            }
            Outcome::Fail { signature, detail } => {
                if self.counting { self.evaluations += 1; }
                if !self.strict {
                    if let Some(k) = self.known.iter().find(|k| sig_matches(&k.signature, signature)) {
                        let key = format!("{} | {}", k.listed_as, k.what);
                        let first = !self.known_hits.contains_key(&key);
                        *self.known_hits.entry(key).or_insert(0) += if self.counting || first { 1 } else { 0 };
                        return false;
                    }
                }
                if let Some(t) = &self.shrink_target { return t == signature; }
                if self.replay_mode {
                    self.violations.push((signature.clone(), String::new()));
                    eprintln!("FAIL signature={signature}\n{}", serde_json::to_string_pretty(detail).unwrap_or_default());
                }
                true
            }
        }
    }

    /// Registers a (shrunk) violation: writes the replay file and remembers it for the driver.
    pub fn violation(&mut self, signature: &str, case: &Value, detail: &Value) {
        if !self.seen_sigs.insert(signature.to_string()) { return }
        let dir = format!("{VERIF}/replays/{}", self.prop);
        let _ = std::fs::create_dir_all(&dir);
        let h = hash64(&(signature, case.to_string()));
        let path = format!("{dir}/{:016x}.json", h);
        let body = json!({ "property": self.prop, "seed": self.seed, "signature": signature, "case": case, "detail": detail });
        let _ = std::fs::write(&path, serde_json::to_string_pretty(&body).unwrap());
        self.violations.push((signature.to_string(), path));
    }

    fn finish(&self) -> Value {
        let _ = std::fs::create_dir_all(format!("{VERIF}/target/tmp"));
        let hp = format!("{VERIF}/target/tmp/{}.{}.hashes", self.prop, self.shard);
        let mut bytes = Vec::with_capacity(self.nontrivial.len() * 8);
        for h in &self.nontrivial { bytes.extend_from_slice(&h.to_le_bytes()); }
        let _ = std::fs::write(&hp, bytes);
        json!({
            "evaluations": self.evaluations, "skipped": self.skipped, "hashes": hp, "capped": self.nontrivial_capped,
            "classes": self.classes, "skips": self.skips, "samples": self.samples, "extra": self.extra,
            "known_hits": self.known_hits, "violations": self.violations,
        })
    }
}

// ------------------------------------------------------------------------------------------------
// Property trait

pub trait Property: Sync {
    fn id(&self) -> &'static str;
    fn level(&self) -> &'static str { "exploration" }
    /// how cases are generated and what makes one non-trivial (goes into the evidence file)
    fn rule(&self) -> String;
    fn assumptions(&self) -> Vec<String> { vec![] }
    /// Generates / enumerates this worker's share of the cases and feeds them through `run_case` / `run_tape_batches`.
    fn explore(&self, ctx: &mut Ctx);
    /// The oracle: decides one case. Must be a pure function of the case and the code under test.
    fn check(&self, case: &Value) -> Outcome;
    /// replay of one saved case (default: the oracle itself)
    fn replay(&self, case: &Value) -> Outcome { self.check(case) }
    /// true if `exhaustive` may be claimed for this tier
    fn exhaustive(&self, _tier: Tier) -> bool { false }
    /// number of workers wanted (default: all cores)
    fn workers(&self, _tier: Tier) -> usize { 16 }
    /// driver-side extra step after the workers are done (used by C01 to compare transcripts across processes)
    fn post(&self, _tier: Tier, _seed: u64, _results: &[Value], _extra: &mut BTreeMap<String, Value>) -> Vec<(String, Value, Value)> { vec![] }
}

/// Runs one enumerated case (no shrinking by proptest; `minimise` may be used by the caller).
pub fn run_case(p: &dyn Property, ctx: &mut Ctx, case: Value) {
    ctx.inflight(&case);
    let out = p.check(&case);
    if ctx.record(&case, &out) {
        if let Outcome::Fail { signature, detail } = &out { ctx.violation(signature, &case, detail); }
    }
}

/// Runs `batches` proptest runs of `cases_per_batch` cases each. Each case is a choice tape decoded by `decode`.
/// A failing batch is shrunk by proptest (tape gets shorter / values smaller) while keeping the same signature.
pub fn run_tape_batches(p: &dyn Property, ctx: &mut Ctx, label: &str, total_cases: u64, tape_len: usize,
                        decode: &dyn Fn(&mut Tape) -> Option<Value>) {
    let share = (total_cases + ctx.nshards as u64 - 1) / ctx.nshards as u64;
    let per_batch: u64 = 2000;
    let mut done = 0u64;
    let mut batch = 0u64;
    let mut failures_here = 0;
    while done < share {
        let n = per_batch.min(share - done);
        let seed = hash64(&(ctx.seed, ctx.shard as u64, label, batch));
        let mut seed_bytes = [0u8; 32];
        for i in 0..4 { seed_bytes[i * 8..(i + 1) * 8].copy_from_slice(&hash64(&(seed, i as u64)).to_le_bytes()); }
        let config = Config { cases: n as u32, failure_persistence: None, max_shrink_iters: 600, max_shrink_time: 90_000, rng_algorithm: RngAlgorithm::ChaCha,
                              rng_seed: RngSeed::Fixed(seed), max_global_rejects: 1_000_000, max_local_rejects: 1_000_000, ..Config::default() };
        let mut runner = TestRunner::new_with_rng(config, TestRng::from_seed(RngAlgorithm::ChaCha, &seed_bytes));
        let strat = proptest::collection::vec(any::<u32>(), tape_len..=tape_len);
        ctx.counting = true;
        ctx.shrink_target = None;
        let cell = std::cell::RefCell::new(&mut *ctx);
        let last_fail: std::cell::RefCell<Option<(String, Value, Value)>> = std::cell::RefCell::new(None);
        let first_fail: std::cell::RefCell<Option<(String, Value, Value)>> = std::cell::RefCell::new(None);
        let res = runner.run(&strat, |tape| {
            let mut ctx = cell.borrow_mut();
            let mut t = Tape::new(&tape);
            let Some(case) = decode(&mut t) else {
                if ctx.counting { ctx.add_extra("generator_rejects", 1); }
                return Ok(());
            };
            ctx.inflight(&case);
            let out = p.check(&case);
            if ctx.record(&case, &out) {
                if let Outcome::Fail { signature, detail } = &out {
                    if ctx.shrink_target.is_none() {
                        ctx.shrink_target = Some(signature.clone()); ctx.counting = false;
                        *first_fail.borrow_mut() = Some((signature.clone(), case.clone(), detail.clone()));
                        crate::api::set_shrinking(true);
                    }
                    *last_fail.borrow_mut() = Some((signature.clone(), case.clone(), detail.clone()));
                    return Err(TestCaseError::fail(signature.clone()));
                }
            }
            Ok(())
        });
        drop(cell);
        match res {
            Ok(()) => {}
            Err(TestError::Fail(reason, tape)) if last_fail.borrow().is_none() => {
                // the oracle itself panicked on this case (proptest turns a panic into a failure): never swallow it
                crate::api::set_shrinking(false);
                ctx.shrink_target = None; ctx.counting = false;
                let case = decode(&mut Tape::new(&tape)).unwrap_or(Value::Null);
                ctx.violation(&format!("the check's own code panicked on a case: {}", reason.message().lines().next().unwrap_or("")), &case, &json!({"reason": reason.message()}));
                failures_here += 1;
            }
            Err(TestError::Fail(_, _)) | Err(TestError::Abort(_)) => {
                crate::api::set_shrinking(false);
                if let Some((sig, case, detail)) = last_fail.borrow_mut().take() {
                    ctx.shrink_target = None; ctx.counting = false;
                    // re-check the shrunk case under normal conditions (full step budget); fall back to the original failing case
                    let confirmed = matches!(p.check(&case), Outcome::Fail { signature, .. } if signature == sig);
                    if confirmed { ctx.violation(&sig, &case, &detail); }
                    else if let Some((s0, c0, d0)) = first_fail.borrow_mut().take() { ctx.violation(&s0, &c0, &d0); }
                    failures_here += 1;
                }
            }
        }
        crate::api::set_shrinking(false);
        ctx.counting = true; ctx.shrink_target = None;
        done += n; batch += 1;
        if failures_here >= 8 { ctx.add_extra("stopped_after_8_failing_batches", 1); break; }
    }
}

// ------------------------------------------------------------------------------------------------
// Worker entry

pub fn worker_main(p: &dyn Property, tier: Tier, seed: u64, shard: usize, nshards: usize) {
    let mut ctx = Ctx::new(p.id(), tier, seed, shard, nshards);
    crate::api::init();
    p.explore(&mut ctx);
    let r = ctx.finish();
    let stdout = std::io::stdout();
    let mut lock = stdout.lock();
    let _ = writeln!(lock, "R\t{}", r);
}

// ------------------------------------------------------------------------------------------------
// Regression tier: committed replay files under /verif/regress/<ID>/

/// returns (violations, known-finding lines)
fn run_regress(p: &dyn Property) -> (Vec<(String, String)>, Vec<String>, u64) {
    let dir = format!("{VERIF}/regress/{}", p.id());
    let mut viol = vec![]; let mut known_lines = vec![]; let mut n = 0;
    let Ok(rd) = std::fs::read_dir(&dir) else { return (viol, known_lines, 0) };
    let mut files: Vec<_> = rd.filter_map(|e| e.ok()).map(|e| e.path()).filter(|p| p.extension().map(|x| x == "json").unwrap_or(false)).collect();
    files.sort();
    let known = load_known(p.id());
    for f in files {
        let Ok(txt) = std::fs::read_to_string(&f) else { continue };
        let Ok(v): Result<Value, _> = serde_json::from_str(&txt) else { eprintln!("regress: cannot parse {}", f.display()); continue };
        let case = v.get("case").cloned().unwrap_or(Value::Null);
        n += 1;
        match p.check(&case) {
            Outcome::Fail { signature, .. } => {
                if let Some(k) = known.iter().find(|k| sig_matches(&k.signature, &signature)) {
                    known_lines.push(format!("{} | {}", k.listed_as, k.what));
                } else {
                    viol.push((signature, f.display().to_string()));
                }
            }
            _ => {}
        }
    }
    (viol, known_lines, n)
}

// ------------------------------------------------------------------------------------------------
// Driver

pub fn driver_main(p: &dyn Property, tier: Tier, seed: u64) -> i32 {
    let t0 = Instant::now();
    let id = p.id();
    crate::api::init();
    let _ = std::fs::create_dir_all(format!("{VERIF}/target/tmp"));
    let _ = std::fs::create_dir_all(format!("{VERIF}/evidence"));
    // stale replay files of earlier runs of this property are removed so that paths printed below are from this run
    let _ = std::fs::remove_dir_all(format!("{VERIF}/replays/{id}"));

    let (mut violations, mut known_lines, n_regress) = run_regress(p);

    let n = p.workers(tier).max(1);
    let exe = std::env::current_exe().expect("current exe");
    let mut children = vec![];
    for k in 0..n {
        let child = Command::new(&exe)
            .args(["worker", id, tier.name(), &seed.to_string(), &k.to_string(), &n.to_string()])
            .stdin(Stdio::null()).stdout(Stdio::piped()).stderr(Stdio::inherit())
            .env("RUST_BACKTRACE", "0").env("NO_COLOR", "1")
            .spawn().expect("spawn worker");
        children.push(child);
    }
    let limit = Duration::from_secs(std::env::var("VERIF_TIMEOUT_S").ok().and_then(|s| s.parse().ok()).unwrap_or(tier.pick(1500, 6 * 3600)));
    let mut results: Vec<Value> = vec![];
    let mut inconclusive: Vec<String> = vec![];
    let mut handles = vec![];
    for (k, mut child) in children.into_iter().enumerate() {
        let out = child.stdout.take().unwrap();
        handles.push(std::thread::spawn(move || {
            let mut res = None;
            for line in BufReader::new(out).lines().map_while(Result::ok) {
                if let Some(r) = line.strip_prefix("R\t") { res = serde_json::from_str::<Value>(r).ok(); }
            }
            let deadline = Instant::now() + limit;
            let status = loop {
                match child.try_wait() {
                    Ok(Some(s)) => break Some(s),
                    Ok(None) => { if Instant::now() > deadline { let _ = child.kill(); break None } std::thread::sleep(Duration::from_millis(20)); }
                    Err(_) => break None,
                }
            };
            (k, res, status)
        }));
    }
    // watchdog: the reader threads block on stdout until the child exits; kill via timeout of the whole run
    let (tx, rx) = std::sync::mpsc::channel();
    let total = handles.len();
    for h in handles { let tx = tx.clone(); std::thread::spawn(move || { let _ = tx.send(h.join()); }); }
    let mut got = 0;
    while got < total {
        match rx.recv_timeout(limit.saturating_sub(t0.elapsed()).max(Duration::from_secs(1))) {
            Ok(Ok((k, res, status))) => {
                got += 1;
                match (res, status) {
                    (Some(r), Some(s)) if s.success() => results.push(r),
                    (_, s) => {
                        let inflight = std::fs::read_to_string(format!("{VERIF}/target/tmp/{id}.{k}.inflight")).unwrap_or_default();
                        inconclusive.push(format!("worker {k} ended abnormally ({s:?}); case in flight: {inflight}"));
                    }
                }
            }
            Ok(Err(_)) => { got += 1; inconclusive.push("reader thread panicked".into()); }
            Err(_) => { inconclusive.push(format!("time limit of {}s reached; workers killed", limit.as_secs()));
                        let _ = Command::new("pkill").args(["-P", &std::process::id().to_string()]).status(); break; }
        }
    }

    // merge
    let mut evaluations = 0u64; let mut skipped = 0u64;
    let mut nt: HashSet<u64> = HashSet::new(); let mut capped = false;
    let mut classes: BTreeMap<String, u64> = BTreeMap::new();
    let mut skips: BTreeMap<String, u64> = BTreeMap::new();
    let mut samples: Vec<Value> = vec![];
    let mut extra: BTreeMap<String, Value> = BTreeMap::new();
    let mut known_hits: BTreeMap<String, u64> = BTreeMap::new();
    for r in &results {
        evaluations += r["evaluations"].as_u64().unwrap_or(0);
        skipped += r["skipped"].as_u64().unwrap_or(0);
        capped |= r["capped"].as_bool().unwrap_or(false);
        if let Some(hp) = r["hashes"].as_str() {
            if let Ok(bytes) = std::fs::read(hp) { for c in bytes.chunks_exact(8) { nt.insert(u64::from_le_bytes(c.try_into().unwrap())); } }
            let _ = std::fs::remove_file(hp);
        }
        if let Some(m) = r["classes"].as_object() { for (k, v) in m { *classes.entry(k.clone()).or_insert(0) += v.as_u64().unwrap_or(0); } }
        if let Some(m) = r["skips"].as_object() { for (k, v) in m { *skips.entry(k.clone()).or_insert(0) += v.as_u64().unwrap_or(0); } }
        if let Some(a) = r["samples"].as_array() { for s in a.iter().take(2) { if samples.len() < 16 { samples.push(s.clone()); } } }
        if let Some(m) = r["extra"].as_object() {
            for (k, v) in m {
                let e = extra.entry(k.clone()).or_insert(json!(0));
                if k.starts_with("max_") { if v.as_u64().unwrap_or(0) > e.as_u64().unwrap_or(0) { *e = v.clone(); } }
                else if let (Some(a), Some(b)) = (e.as_u64(), v.as_u64()) { *e = json!(a + b); } else { *e = v.clone(); }
            }
        }
        if let Some(m) = r["known_hits"].as_object() { for (k, v) in m { *known_hits.entry(k.clone()).or_insert(0) += v.as_u64().unwrap_or(0); } }
        if let Some(a) = r["violations"].as_array() {
            for v in a { violations.push((v[0].as_str().unwrap_or("").to_string(), v[1].as_str().unwrap_or("").to_string())); }
        }
    }
    for (sig, case, detail) in p.post(tier, seed, &results, &mut extra) {
        let mut c = Ctx::new(id, tier, seed, 0, 1);
        if let Some(k) = c.known.iter().find(|k| sig_matches(&k.signature, &sig)) { *known_hits.entry(format!("{} | {}", k.listed_as, k.what)).or_insert(0) += 1; continue; }
        c.violation(&sig, &case, &detail);
        violations.extend(c.violations);
    }
    for k in known_hits.keys() { known_lines.push(k.clone()); }
    let known_set: BTreeSet<String> = known_lines.into_iter().collect();

    // dedup violations by signature
    let mut seen = HashSet::new();
    violations.retain(|(s, _)| seen.insert(s.clone()));

    evaluations += n_regress;
    let wall = t0.elapsed().as_secs_f64();
    let mut coverage = json!({
        "evaluations": evaluations,
        "distinct_nontrivial": nt.len(),
        "rule": p.rule(),
        "samples": if samples.is_empty() { vec![json!("(no sample: no worker result)")] } else { samples },
        "exhaustive": p.exhaustive(tier) && inconclusive.is_empty(),
        "skipped_outside_domain": skipped,
        "skip_reasons": skips,
        "classes": classes,
        "regression_cases_replayed": n_regress,
        "known_finding_hits": known_hits,
        "workers": n,
        "distinct_nontrivial_capped": capped,
        "inconclusive": inconclusive,
    });
    for (k, v) in extra { coverage[k] = v; }
    let evidence = json!({
        "property_id": id, "tier": tier.name(), "seed": seed, "level": p.level(),
        "coverage": coverage, "assumptions": p.assumptions(), "wall_s": wall, "violations": violations.len(),
    });
    let _ = std::fs::write(format!("{VERIF}/evidence/{id}.json"), serde_json::to_string_pretty(&evidence).unwrap());

    for k in &known_set { println!("KNOWN-FINDING: property={id} {k}"); }
    for (sig, path) in &violations {
        println!("VIOLATION property={id} replay={path}");
        println!("  signature: {sig}");
    }
    println!("{id} {}: {} evaluations, {} distinct non-trivial, {} violations, {} known-finding signatures, {:.1}s",
             tier.name(), evaluations, nt.len(), violations.len(), known_set.len(), wall);
    if !violations.is_empty() { return 1 }
    if !inconclusive.is_empty() { for i in &inconclusive { println!("INCONCLUSIVE: {i}"); } return 2 }
    0
}

/// `vh replay <ID> <file>`: re-runs exactly the stored case through the oracle, strictly (known findings are not tolerated).
pub fn replay_main(p: &dyn Property, path: &str) -> i32 {
    crate::api::init();
    let Ok(txt) = std::fs::read_to_string(path) else { eprintln!("cannot read {path}"); return 2 };
    let Ok(v): Result<Value, _> = serde_json::from_str(&txt) else { eprintln!("cannot parse {path}"); return 2 };
    let case = v.get("case").cloned().unwrap_or(v.clone());
    match p.replay(&case) {
        Outcome::Fail { signature, detail } => {
            println!("VIOLATION property={} replay={}", p.id(), path);
            println!("  signature: {signature}");
            println!("{}", serde_json::to_string_pretty(&detail).unwrap_or_default());
            1
        }
        Outcome::Skip(why) => { println!("replay: case is outside the property's domain on this tree ({why})"); 0 }
        Outcome::Pass { .. } => { println!("replay: property holds on this case"); 0 }
    }
}
