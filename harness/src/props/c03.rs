//! C03 — a basic sound change rewrites exactly the positions its environment selects
//! (independent reference interpreter written from the manual).

use crate::api;
use crate::core::*;
use crate::gen::{group_def, fidx};
use crate::model::*;
use serde::{Deserialize, Serialize};
use serde_json::{json, Value};
use std::sync::OnceLock;

pub struct C03;

// ---- the basic fragment -------------------------------------------------------------------------

#[derive(Clone, Debug, Serialize, Deserialize, PartialEq)]
pub enum Spec { F(usize, bool), N(u8, bool) } // feature ±, sub-node ± (0 lab, 1 cor, 2 dor, 3 phr, 4 place)

#[derive(Clone, Debug, Serialize, Deserialize, PartialEq)]
pub enum BEl { Lit(String), Mat(Vec<Spec>), Grp(char), Set(Vec<BEl>), SB, WB }

#[derive(Clone, Debug, Serialize, Deserialize, PartialEq)]
pub struct BEnv { pub before: Vec<BEl>, pub after: Vec<BEl> }

#[derive(Clone, Debug, Serialize, Deserialize, PartialEq)]
pub struct BRule { pub input: BEl, pub output: BEl, pub context: Vec<BEnv>, pub except: Vec<BEnv> }

fn spec_text(s: &Spec) -> String {
    match s { Spec::F(f, b) => format!("{}{}", if *b { "+" } else { "-" }, FEATS[*f].0),
              Spec::N(n, b) => format!("{}{}", if *b { "+" } else { "-" }, ["lab", "cor", "dor", "phr", "place"][*n as usize]) }
}
pub fn el_text(e: &BEl) -> String {
    match e { BEl::Lit(t) => t.clone(), BEl::Mat(v) => format!("[{}]", v.iter().map(spec_text).collect::<Vec<_>>().join(",")), BEl::Grp(c) => c.to_string(),
              BEl::Set(xs) => format!("{{{}}}", xs.iter().map(el_text).collect::<Vec<_>>().join(", ")), BEl::SB => "$".into(), BEl::WB => "#".into() }
}
fn env_text(e: &BEnv) -> String {
    let b = e.before.iter().map(el_text).collect::<Vec<_>>().join(" "); let a = e.after.iter().map(el_text).collect::<Vec<_>>().join(" ");
    format!("{b}{}_{}{a}", if b.is_empty() { "" } else { " " }, if a.is_empty() { "" } else { " " })
}
fn envs_text(v: &[BEnv]) -> String { if v.len() == 1 { env_text(&v[0]) } else { format!(":{{ {} }}:", v.iter().map(env_text).collect::<Vec<_>>().join(", ")) } }
pub fn rule_text(r: &BRule) -> String {
    let mut s = format!("{} > {}", el_text(&r.input), el_text(&r.output));
    if !r.context.is_empty() { s.push_str(" / "); s.push_str(&envs_text(&r.context)); }
    if !r.except.is_empty() { s.push_str(" | "); s.push_str(&envs_text(&r.except)); }
    s
}

// ---- reference interpreter ------------------------------------------------------------------------

fn node_of(n: u8) -> Option<Node> { match n { 0 => Some(Node::Lab), 1 => Some(Node::Cor), 2 => Some(Node::Dor), 3 => Some(Node::Phr), _ => None } }
fn spec_match(s: &MSeg, sp: &Spec) -> bool {
    match sp { Spec::F(f, b) => s.matches(*f, *b), Spec::N(n, b) => match node_of(*n) { Some(nd) => s.node(nd).is_some() == *b, None => s.has_place() == *b } }
}
fn spec_apply(s: &mut MSeg, sp: &Spec) {
    match sp {
        Spec::F(f, b) => s.set_feat(*f, *b),
        Spec::N(n, b) => match (node_of(*n), *b) {
            (Some(nd), true) => if s.node(nd).is_none() { s.set_node(nd, Some(0)) },
            (Some(nd), false) => s.set_node(nd, None),
            (None, false) => { s.lab = None; s.cor = None; s.dor = None; s.phr = None; }
            (None, true) => {}
        },
    }
}
fn lit(t: &str) -> MSeg { tables().by_name[t] }
/// does a segment-matching element match this segment; for sets, the index of the first matching alternative
fn seg_match(e: &BEl, s: &MSeg) -> Option<usize> {
    match e {
        BEl::Lit(t) => if lit(t) == *s { Some(0) } else { None },
        BEl::Mat(v) => if v.iter().all(|sp| spec_match(s, sp)) { Some(0) } else { None },
        BEl::Grp(c) => if group_def(*c).unwrap().iter().all(|(f, b)| s.matches(*f, *b)) { Some(0) } else { None },
        BEl::Set(xs) => xs.iter().position(|x| seg_match(x, s).is_some()),
        BEl::SB | BEl::WB => None,
    }
}

struct Flat { segs: Vec<MSeg>, syl: Vec<usize> }
impl Flat {
    fn n(&self) -> usize { self.segs.len() }
    /// is gap k (before position k, 0..=n) a syllable edge (word edges included)
    fn bound(&self, k: usize) -> bool { k == 0 || k == self.n() || self.syl[k - 1] != self.syl[k] }
}

/// matches `items` leftwards from gap g (before-context) or rightwards from gap g (after-context)
fn side_match(items: &[BEl], w: &Flat, mut g: usize, leftwards: bool) -> bool {
    let seq: Vec<&BEl> = if leftwards { items.iter().rev().collect() } else { items.iter().collect() };
    for it in seq {
        let alts: Vec<&BEl> = match it { BEl::Set(xs) => xs.iter().collect(), x => vec![x] };
        let mut ok = false;
        for a in alts {
            match a {
                BEl::SB => if w.bound(g) { ok = true; break },
                BEl::WB => if (leftwards && g == 0) || (!leftwards && g == w.n()) { ok = true; break },
                x => {
                    if leftwards { if g > 0 && seg_match(x, &w.segs[g - 1]).is_some() { g -= 1; ok = true; break } }
                    else if g < w.n() && seg_match(x, &w.segs[g]).is_some() { g += 1; ok = true; break }
                }
            }
        }
        if !ok { return false }
    }
    true
}
fn env_match(e: &BEnv, w: &Flat, i: usize) -> bool { side_match(&e.before, w, i, true) && side_match(&e.after, w, i + 1, false) }

fn has_adjacent_equal(w: &Flat) -> bool { (1..w.n()).any(|k| w.syl[k] == w.syl[k - 1] && w.segs[k] == w.segs[k - 1]) }

/// Returns None when the precondition (no two equal segments adjacent inside a syllable at any stage) fails.
pub fn reference(r: &BRule, word: &MWord) -> Option<MWord> {
    let mut w = Flat { segs: word.flat(), syl: word.sylls.iter().enumerate().flat_map(|(i, s)| std::iter::repeat(i).take(s.segs.len())).collect() };
    if has_adjacent_equal(&w) { return None }
    for i in 0..w.n() {
        let Some(alt) = seg_match(&r.input, &w.segs[i]) else { continue };
        if !r.context.is_empty() && !r.context.iter().any(|e| env_match(e, &w, i)) { continue }
        if r.except.iter().any(|e| env_match(e, &w, i)) { continue }
        let out = match (&r.output, &r.input) { (BEl::Set(os), BEl::Set(_)) => &os[alt], (o, _) => o };
        match out {
            BEl::Lit(t) => w.segs[i] = lit(t),
            BEl::Mat(v) => for sp in v { spec_apply(&mut w.segs[i], sp) },
            _ => unreachable!("output of the basic fragment"),
        }
        if has_adjacent_equal(&w) { return None }
    }
    let mut out = word.clone(); let mut k = 0;
    for sy in out.sylls.iter_mut() { for s in sy.segs.iter_mut() { *s = w.segs[k]; k += 1; } }
    Some(out)
}

// ---- inventories ----------------------------------------------------------------------------------

fn f(name: &str, b: bool) -> Spec { Spec::F(fidx(name), b) }
fn l(t: &str) -> BEl { BEl::Lit(t.into()) }

pub fn inputs() -> Vec<BEl> {
    vec![l("p"), l("a"), BEl::Grp('V'), BEl::Grp('C'), BEl::Mat(vec![f("voice", true)]), BEl::Mat(vec![f("high", false)]), BEl::Mat(vec![f("ant", false)]), BEl::Mat(vec![f("cont", false), Spec::N(0, true)]), BEl::Set(vec![l("p"), l("a")]), BEl::Set(vec![l("t"), BEl::Grp('V')]), BEl::Grp('O')]
}
pub fn outputs(input: &BEl) -> Vec<BEl> {
    let mut v = vec![l("t"), l("i"), BEl::Mat(vec![f("voice", true)]), BEl::Mat(vec![f("nasal", true), f("syll", false)]), BEl::Mat(vec![Spec::N(4, false), f("cg", true)]), BEl::Mat(vec![f("high", false)])];
    if let BEl::Set(xs) = input { if xs.len() == 2 { v.push(BEl::Set(vec![l("t"), l("i")])); v.push(BEl::Set(vec![BEl::Mat(vec![f("voice", true)]), l("p")])); } }
    v
}
pub fn ctx_elements() -> Vec<BEl> {
    // `[-round]`: a negated feature of a place sub-node, which `t`, `a`, `i` (no LABIAL node) match neither way and `p` matches
    vec![l("p"), l("a"), l("t"), BEl::Grp('V'), BEl::Grp('C'), BEl::Mat(vec![f("voice", true)]), BEl::Mat(vec![f("round", false)]), BEl::Set(vec![l("p"), l("a")]), BEl::Set(vec![BEl::Grp('V'), BEl::WB]), BEl::Set(vec![BEl::SB, l("t")]), BEl::SB, BEl::WB]
}
/// all sides of length ≤ max (a `#` only at the outer edge, at most once)
pub fn sides(max: usize, before: bool) -> Vec<Vec<BEl>> {
    let els = ctx_elements();
    let mut out: Vec<Vec<BEl>> = vec![vec![]];
    let mut frontier: Vec<Vec<BEl>> = vec![vec![]];
    for _ in 0..max {
        let mut next = vec![];
        for s in &frontier { for e in &els {
            let mut v = s.clone(); v.push(e.clone());
            // word boundary (also inside a set) only as the outermost element
            let wb = |x: &BEl| *x == BEl::WB || matches!(x, BEl::Set(xs) if xs.contains(&BEl::WB));
            let ok = if before { v.iter().skip(1).all(|x| !wb(x)) } else { v.iter().take(v.len() - 1).all(|x| !wb(x)) };
            // `before` lists are written left to right, so the outermost element of a before side is the first one
            if ok { next.push(v); }
        } }
        out.extend(next.iter().cloned());
        frontier = next;
    }
    out
}

const PHONES4: [&str; 4] = ["p", "t", "a", "i"];
/// all words of ≤ n segments over the 4-phone inventory in every syllabification, as text
pub fn all_words(n: usize) -> Vec<String> {
    let mut out = vec![];
    for len in 1..=n {
        for code in 0..4usize.pow(len as u32) {
            let segs: Vec<&str> = (0..len).map(|k| PHONES4[(code / 4usize.pow(k as u32)) % 4]).collect();
            for cut in 0..(1usize << (len - 1)) {
                let mut t = String::new();
                for (k, s) in segs.iter().enumerate() { if k > 0 && cut & (1 << (k - 1)) != 0 { t.push('.'); } t.push_str(s); }
                out.push(t);
            }
        }
    }
    out
}

fn parsed_words(n: usize) -> &'static Vec<(String, asca::verif::Word, MWord)> {
    static W3: OnceLock<Vec<(String, asca::verif::Word, MWord)>> = OnceLock::new();
    static W4: OnceLock<Vec<(String, asca::verif::Word, MWord)>> = OnceLock::new();
    let cell = if n <= 3 { &W3 } else { &W4 };
    cell.get_or_init(|| all_words(n.max(3)).into_iter().filter_map(|t| match api::parse_word(&t) { Ok(Ok(w)) => { let m = MWord::from_asca(&w); Some((t, w, m)) } _ => None }).collect())
}

fn shape(r: &BRule) -> String {
    let has = |es: &[BEnv], x: &BEl| es.iter().any(|e| e.before.iter().chain(e.after.iter()).any(|y| y == x || matches!(y, BEl::Set(xs) if xs.contains(x))));
    format!("ctx{}b{}a{}|exc{}b{}a{}|{}{}", r.context.len(), r.context.iter().map(|e| e.before.len()).max().unwrap_or(0), r.context.iter().map(|e| e.after.len()).max().unwrap_or(0),
        r.except.len(), r.except.iter().map(|e| e.before.len()).max().unwrap_or(0), r.except.iter().map(|e| e.after.len()).max().unwrap_or(0),
        if has(&r.context, &BEl::SB) || has(&r.except, &BEl::SB) { "$" } else { "" }, if has(&r.context, &BEl::WB) || has(&r.except, &BEl::WB) { "#" } else { "" })
}

thread_local! { static DISCARDS: std::cell::Cell<(u64, u64)> = const { std::cell::Cell::new((0, 0)) }; }

impl C03 {
    fn check_one(&self, r: &BRule, text: &str, w: &asca::verif::Word, mw: &MWord, rule_txt: &str) -> Result<Option<bool>, Outcome> {
        // Ok(None) = precondition failed (discard); Ok(Some(changed))
        DISCARDS.with(|d| { let (a, b) = d.get(); d.set((a + 1, b)); });
        let Some(expect) = reference(r, mw) else { DISCARDS.with(|d| { let (a, b) = d.get(); d.set((a, b + 1)); }); return Ok(None) };
        match api::apply_rules(&[rule_txt.to_string()], w) {
            Err(a) => Err(Outcome::fail(format!("abnormal|{}", a.signature()), json!({"rule": rule_txt, "word": text}))),
            Ok(Err(e)) => Err(Outcome::fail(format!("error|{}", api::err_variant(&e)), json!({"rule": rule_txt, "word": text, "error": format!("{e:?}"), "expected": expect.show()}))),
            Ok(Ok(g)) => {
                let g = MWord::from_asca(&g);
                if g != expect { return Err(Outcome::fail(format!("mismatch|{}", shape(r)), json!({"rule": rule_txt, "word": text, "expected": expect.show(), "got": g.show()}))) }
                Ok(Some(expect != *mw))
            }
        }
    }
}

use crate::gen::{gen_word, WordProfile};

fn gen_random_rule(t: &mut Tape) -> BRule {
    let ins = inputs(); let input = ins[t.pick(ins.len())].clone();
    let outs = outputs(&input); let output = outs[t.pick(outs.len())].clone();
    let els = ctx_elements();
    let side = |t: &mut Tape, before: bool| -> Vec<BEl> {
        let n = t.weighted(&[4, 4, 2]);
        let mut v: Vec<BEl> = (0..n).map(|_| els[t.pick(els.len() - 1)].clone()).collect(); // no bare `#` inside
        let wbset = |x: &BEl| matches!(x, BEl::Set(xs) if xs.contains(&BEl::WB));
        // sets containing `#` only at the outer edge
        for (k, x) in v.clone().iter().enumerate() { let outer = if before { k == 0 } else { k + 1 == n }; if wbset(x) && !outer { v[k] = BEl::Grp('C'); } }
        if t.chance(1, 5) { if before { v.insert(0, BEl::WB) } else { v.push(BEl::WB) } }
        v
    };
    let mut envs = |t: &mut Tape| -> Vec<BEnv> {
        match t.weighted(&[3, 5, 2]) { 0 => vec![], 1 => vec![BEnv { before: side(t, true), after: side(t, false) }], _ => (0..2 + t.pick(2)).map(|_| BEnv { before: side(t, true), after: side(t, false) }).collect() }
    };
    let context = envs(t); let except = envs(t);
    // an environment `_` with nothing on either side is only written when it is the sole context
    let clean = |v: Vec<BEnv>| -> Vec<BEnv> { if v.len() > 1 { v.into_iter().filter(|e| !(e.before.is_empty() && e.after.is_empty())).collect() } else { v } };
    BRule { input, output, context: clean(context), except: clean(except).into_iter().filter(|e| !(e.before.is_empty() && e.after.is_empty())).collect() }
}

impl Property for C03 {
    fn id(&self) -> &'static str { "C03" }
    fn rule(&self) -> String {
        "Basic fragment: input ∈ {p, a, V, C, O, [+voice], [-cont,+lab], {p,a}, {t,V}}, output ∈ {t, i, [+voice], [+nasal,-syll], [-place,+cg], [-high], and two sets of the same arity for set inputs}, environment elements ∈ {p, a, t, V, C, [+voice], {p,a}, {V,#}, {$,t}, $, #}. \
         (A) exhaustive slice: all input × output × contexts with ≤1 element on each side (no exception), and the same with the environment used as exception instead, × all 292 words of ≤3 segments over {p,t,a,i} in every syllabification plus contexts with up to 2 elements per side on a 1/64 stride offset by the seed (thorough: 1/8 stride, 2340 words of ≤4 segments); \
         (B) random rules over the full product (≤2 elements per side, `#` at the edges, environment sets of 2-3, context and exception together) × random words of 1-4 syllables over the common phone pool with stress and tone (quick 1M, thorough 12M). \
         Oracle: an independent reference interpreter written from the manual (left-to-right scan; before-context read right-to-left on the already rewritten prefix, after-context left-to-right on the unrewritten suffix; `#` = outside the word, `$` = any syllable edge incl. the word edges; environment set = any; exception = none). \
         Cases in which two equal segments become adjacent inside a syllable at any stage are discarded (counted). One enumerated case = one rule × all words; non-trivial = the reference result differs from the input for some word. Comparison is structural (bundles per syllable, stress, tone).".into()
    }
    fn assumptions(&self) -> Vec<String> { vec!["the reference interpreter's reading of the manual; a Python prototype of the same model agreed with the pinned tree on 200k random cases during design".into()] }
    fn explore(&self, ctx: &mut Ctx) {
        let thorough = ctx.tier == Tier::Thorough;
        let (maxside, nwords) = if thorough { (2, 4) } else { (2, 3) };
        let stride = if thorough { 8 } else { 64 };
        let bs = sides(maxside, true); let afs = sides(maxside, false);
        let mut idx = 0usize; let mut k = 0usize;
        for input in inputs() { for output in outputs(&input) { for b in &bs { for a in &afs {
            if b.is_empty() && a.is_empty() { continue }
            if b.len() + a.len() > 2 || b.len() == 2 || a.len() == 2 { k += 1; if k % stride != (ctx.seed as usize) % stride { continue } }
            for as_except in [false, true] {
                idx += 1; if idx % ctx.nshards != ctx.shard { continue }
                let env = vec![BEnv { before: b.clone(), after: a.clone() }];
                let r = BRule { input: input.clone(), output: output.clone(), context: if as_except { vec![] } else { env.clone() }, except: if as_except { env } else { vec![] } };
                run_case(self, ctx, json!({"rule": serde_json::to_value(&r).unwrap(), "words": format!("all{nwords}"), "text": rule_text(&r)}));
            }
        } } } }
        // no environment at all
        for input in inputs() { for output in outputs(&input) { idx += 1; if idx % ctx.nshards != ctx.shard { continue }
            let r = BRule { input: input.clone(), output, context: vec![], except: vec![] };
            run_case(self, ctx, json!({"rule": serde_json::to_value(&r).unwrap(), "words": format!("all{nwords}"), "text": rule_text(&r)})); } }
        let n = ctx.tier.pick(1_000_000, 12_000_000);
        run_tape_batches(self, ctx, "random", n, 200, &|t| {
            let r = gen_random_rule(t);
            let w = gen_word(t, WordProfile { max_sylls: 4, max_segs: 3, supra: true, rich: 0, long: false });
            Some(json!({"rule": serde_json::to_value(&r).unwrap(), "words": [w.text()], "text": rule_text(&r)}))
        });
        let (a, b) = DISCARDS.with(|d| d.get());
        ctx.add_extra("applications", a); ctx.add_extra("applications_discarded_by_precondition", b);
    }
    fn check(&self, case: &Value) -> Outcome {
        let Ok(r): Result<BRule, _> = serde_json::from_value(case["rule"].clone()) else { return Outcome::skip("malformed rule") };
        let txt = rule_text(&r);
        let mut changed = false; let mut any = false;
        if let Some(set) = case["words"].as_str() {
            let n: usize = set.trim_start_matches("all").parse().unwrap_or(3);
            for (text, w, mw) in parsed_words(n) {
                match self.check_one(&r, text, w, mw, &txt) { Err(o) => return o, Ok(Some(c)) => { any = true; changed |= c } Ok(None) => {} }
            }
        } else {
            for text in crate::props::c02::strs(&case["words"]) {
                let w = match api::parse_word(&text) { Ok(Ok(w)) => w, _ => return Outcome::skip("word does not parse") };
                let mw = MWord::from_asca(&w);
                match self.check_one(&r, &text, &w, &mw, &txt) { Err(o) => return o, Ok(Some(c)) => { any = true; changed |= c } Ok(None) => {} }
            }
        }
        if !any { return Outcome::skip("precondition: equal adjacent segments inside a syllable") }
        if changed { Outcome::pass_nt(hash64(&(txt, case["words"].to_string()))) } else { Outcome::pass() }
    }
}
