//! C04 — a feature matrix matches and changes exactly the features it names (exhaustive against a bit-level model).

use crate::api;
use crate::core::*;
use crate::gen::*;
use crate::model::*;
use serde_json::{json, Value};

pub struct C04;

const NODES: [(&str, Option<Node>); 5] = [("lab", Some(Node::Lab)), ("cor", Some(Node::Cor)), ("dor", Some(Node::Dor)), ("phr", Some(Node::Phr)), ("place", None)];

fn node_present(s: &MSeg, n: Option<Node>) -> bool { match n { Some(n) => s.node(n).is_some(), None => s.has_place() } }
fn node_set(s: &mut MSeg, n: Option<Node>, positive: bool) {
    match (n, positive) {
        (Some(n), true) => if s.node(n).is_none() { s.set_node(n, Some(0)) },
        (Some(n), false) => s.set_node(n, None),
        (None, false) => { s.lab = None; s.cor = None; s.dor = None; s.phr = None; }
        (None, true) => unreachable!(),
    }
}

fn map_segs(w: &MWord, f: impl Fn(&MSeg) -> MSeg) -> MWord { MWord { sylls: w.sylls.iter().map(|s| MSyll { segs: s.segs.iter().map(&f).collect(), stress: s.stress, tone: s.tone }).collect() } }
fn mark_sylls(w: &MWord, f: impl Fn(&MSeg) -> bool) -> MWord { MWord { sylls: w.sylls.iter().map(|s| MSyll { segs: s.segs.clone(), stress: s.stress, tone: if s.segs.iter().any(&f) { 7 } else { s.tone } }).collect() } }

/// One cell: rule text, expected result (None = the call must return Err), signature
fn cells(family: &str, w: &MWord) -> Vec<(String, Option<MWord>, String)> {
    let mut v = vec![];
    let pm = |b: bool| if b { "+" } else { "-" };
    match family {
        "set" => {
            for f in 0..26 { for b in [true, false] {
                v.push((format!("[] > [{}{}]", pm(b), FEATS[f].0), Some(map_segs(w, |s| { let mut s = *s; s.set_feat(f, b); s })), format!("set|{}F", pm(b))));
            } }
            for (name, n) in NODES { for b in [true, false] {
                if n.is_none() && b { v.push((format!("[] > [+{name}]"), None, "set|+place must be an error".into())); continue }
                v.push((format!("[] > [{}{}]", pm(b), name), Some(map_segs(w, |s| { let mut s = *s; node_set(&mut s, n, b); s })), format!("set|{}node", pm(b))));
            } }
            for name in ["root", "manner", "lar"] { for b in [true, false] { v.push((format!("[] > [{}{}]", pm(b), name), None, format!("set|{}major node must be an error", pm(b)))); } }
        }
        "match" => {
            for f in 0..26 { for b in [true, false] {
                v.push((format!("[{}{}] > [tone:7]", pm(b), FEATS[f].0), Some(mark_sylls(w, |s| s.matches(f, b))), format!("match|{}F", pm(b))));
            } }
            for (name, n) in NODES { for b in [true, false] {
                v.push((format!("[{}{}] > [tone:7]", pm(b), name), Some(mark_sylls(w, |s| node_present(s, n) == b)), format!("match|{}node", pm(b))));
            } }
        }
        "nodealpha" => {
            for (name, _) in NODES { v.push((format!("[α{name}] > [α{name}]"), Some(w.clone()), "alpha|node identity".into())); }
            // a node alpha carries the whole sub-node from the context onto the target: X > [αN] / _[αN]
            for (name, n) in NODES.iter().take(4) {
                let n = n.unwrap();
                // target = every segment that is followed (inside the word, across syllables) by another segment; the follower is read before it is rewritten
                let flat = w.flat();
                let mut out = w.clone(); let mut k = 0;
                for sy in out.sylls.iter_mut() { for s in sy.segs.iter_mut() { if k + 1 < flat.len() { s.set_node(n, flat[k + 1].node(n)); } k += 1; } }
                v.push((format!("[] > [α{name}] / _[α{name}]"), Some(out), "alpha|node copied from the following segment".into()));
                // agreement: the alpha bound on the target is *compared* with the neighbour's sub-node (absent agrees only with absent, present only with the same value)
                let agree = |i: usize, j: Option<usize>| j.map(|j| flat[i].node(n) == flat[j].node(n)).unwrap_or(false);
                let mut k = 0; let mut fire_after = vec![]; let mut fire_before = vec![];
                for _ in 0..flat.len() { fire_after.push(agree(k, if k + 1 < flat.len() { Some(k + 1) } else { None })); fire_before.push(agree(k, k.checked_sub(1))); k += 1; }
                for (fires, rule) in [(fire_after, format!("[α{name}] > [tone:7] / _[α{name}]")), (fire_before, format!("[α{name}] > [tone:7] / [α{name}]_"))] {
                    let mut out = w.clone(); let mut k = 0;
                    for sy in out.sylls.iter_mut() { let mut any = false; for _ in sy.segs.iter() { if fires[k] { any = true; } k += 1; } if any { sy.tone = 7; } }
                    v.push((rule, Some(out), "alpha|node agreement with the neighbour".into()));
                }
            }
        }
        _ => {
            // "alpha:<F>": [αF] > [αG] and [αF] > [-αG] for all G
            let f: usize = family.strip_prefix("alpha:").and_then(|x| x.parse().ok()).unwrap_or(0);
            for g in 0..26 { for inv in [false, true] {
                let exp = map_segs(w, |s| { let mut s = *s; if let Some(v) = s.feat(f) { s.set_feat(g, v != inv); } s });
                v.push((format!("[α{}] > [{}α{}]", FEATS[f].0, if inv { "-" } else { "" }, FEATS[g].0), Some(exp), format!("alpha|F>{}G{}", if inv { "-" } else { "" }, if f == g { " (same feature)" } else { "" })));
            } }
        }
    }
    v
}

pub fn families() -> Vec<String> { let mut v = vec!["set".to_string(), "match".into(), "nodealpha".into()]; for f in 0..26 { v.push(format!("alpha:{f}")); } v }

impl C04 {
    fn check_free(&self, _case: &Value) -> Outcome { Outcome::skip("malformed case") }
    /// `[±F.., αG.., ..] > [±H.., αK, -βL..]` on a word of several segments: every segment is decided on its own (no environment), alphas are unbound at every position
    fn check_mixed(&self, case: &Value) -> Outcome {
        let text = case["word"].as_str().unwrap_or("");
        let args = |v: &Value| -> Vec<(String, usize)> { v.as_array().map(|a| a.iter().filter_map(|x| Some((x[0].as_str()?.to_string(), x[1].as_u64()? as usize))).collect()).unwrap_or_default() };
        let (inp, out) = (args(&case["in"]), args(&case["out"]));
        if inp.is_empty() || out.is_empty() || inp.iter().chain(out.iter()).any(|(_, f)| *f >= 26) { return Outcome::skip("malformed case") }
        let mt = |v: &[(String, usize)]| v.iter().map(|(s, f)| format!("{s}{}", FEATS[*f].0)).collect::<Vec<_>>().join(", ");
        let rule = format!("[{}] > [{}]", mt(&inp), mt(&out));
        let w = match api::parse_word(text) { Ok(Ok(w)) => w, _ => return Outcome::skip("word does not parse") };
        let mw = MWord::from_asca(&w);
        let mut fired = 0; let mut skipped_after_partial = false; let mut partial = false;
        // a repeated alpha: asca evaluates the arguments of a matrix in feature order, the first use (in that order) binds, later uses compare (an inverted use compares with the opposite value);
        // a feature of an absent sub-node matches no value, bound or not
        let mut ordered = inp.clone(); ordered.sort_by_key(|(_, f)| *f);
        let repeated = { let mut names: Vec<&str> = inp.iter().filter(|(sg, _)| sg != "+" && sg != "-").map(|(sg, _)| sg.trim_start_matches('-')).collect(); names.sort(); names.windows(2).any(|p| p[0] == p[1]) };
        // (an inverted first use would bind the opposite value: not generated — the first use of every alpha in feature order must be plain)
        if repeated { let mut seen: Vec<&str> = vec![]; for (sg, _) in &ordered { if sg == "+" || sg == "-" { continue } let n = sg.trim_start_matches('-'); if !seen.contains(&n) { if sg.starts_with('-') { return Outcome::skip("inverted first use of an alpha") } seen.push(n); } } }
        let expect = map_segs(&mw, |s| {
            let mut bind: std::collections::HashMap<&str, bool> = Default::default();
            for (sg, f) in &ordered { match sg.as_str() { "+" => if !s.matches(*f, true) { return *s }, "-" => if !s.matches(*f, false) { return *s }, a => {
                let (inv, name) = match a.strip_prefix('-') { Some(n) => (true, n), None => (false, a) };
                match (s.feat(*f), bind.get(name).copied()) { (None, _) => return *s, (Some(v), None) => { bind.insert(name, v != inv); } (Some(v), Some(b)) => if v != (b != inv) { return *s } }
            } } }
            let mut r = *s;
            for (sg, g) in &out { match sg.as_str() { "+" => r.set_feat(*g, true), "-" => r.set_feat(*g, false), a => { let (inv, name) = match a.strip_prefix('-') { Some(n) => (true, n), None => (false, a) }; if let Some(v) = bind.get(name) { r.set_feat(*g, *v != inv) } } } }
            r
        });
        // non-trivial: some segment matches after an earlier segment bound an alpha and then failed a later argument
        for s in mw.flat() {
            let mut bound = false; let mut ok = true;
            for (sg, f) in &ordered { match sg.as_str() { "+" => if !s.matches(*f, true) { ok = false; break }, "-" => if !s.matches(*f, false) { ok = false; break }, _ => match s.feat(*f) { Some(_) => bound = true, None => { ok = false; break } } } }
            if ok { fired += 1; if partial { skipped_after_partial = true; } } else if bound { partial = true; }
        }
        match api::apply_rules(&[rule.clone()], &w) {
            Err(a) => Outcome::fail(format!("mixed|{}", a.signature()), json!({"rule": rule, "word": text})),
            Ok(Err(e)) => Outcome::fail("mixed|unexpected error", json!({"rule": rule, "word": text, "error": format!("{e:?}")})),
            Ok(Ok(g)) => {
                let g = MWord::from_asca(&g);
                if g != expect { return Outcome::fail("mixed|matrix with fixed and alpha arguments: result differs from the model", json!({"rule": rule, "word": text, "expected": expect.show(), "got": g.show()})) }
                if fired > 0 && skipped_after_partial { Outcome::pass_nt(hash64(&case.to_string())) } else { Outcome::pass() }
            }
        }
    }
}

impl Property for C04 {
    fn id(&self) -> &'static str { "C04" }
    fn rule(&self) -> String {
        "Exhaustive over segments S = 365 bases ∪ every base+1 diacritic (model-applied diacritic; kept if asca parses it to the same bundle), each placed alone (`S`) and as the middle syllable of `pa.S.ta`, \
         × rule families: set (`[] > [±F]` for 26 features, `[] > [±lab|cor|dor|phr]`, `[] > [-place]`; `[+place]` and `[±root|manner|lar]` must be errors), match (`[±F] > [tone:7]`, `[±node] > [tone:7]`, tone as the match marker), \
         alpha (`[αF] > [αG]` and `[αF] > [-αG]` for all 26×26 pairs), node alphas (`[αN] > [αN]`, `[] > [αN] / _[αN]`, and agreement `[αN] > [tone:7] / _[αN]`, `/ [αN]_`). One case = (segment, context, family) = 10-62 rule applications; the result is compared structurally with a bit-level model \
         (own representation: root/manner/laryngeal bytes + four optional sub-nodes; in addition the place node of every result segment must be absent exactly when all four sub-nodes are). Both tiers enumerate the whole space; the thorough tier adds every 4th base+2-diacritic text. A random part (300k / 4M cases) applies `[±F.., αG.., ±H..] > [±K.., αL, -βM..]` (2-4 input and 1-3 output arguments, fixed signs directed at a segment of the word) to words of 2-6 pool segments; model: every segment is decided on its own, alphas unbound at every position; non-trivial there = a segment matches after an earlier segment bound an alpha and then failed a later argument. Non-trivial: the model predicts a change of the word for at least one rule of the case.".into()
    }
    fn exhaustive(&self, _t: Tier) -> bool { true }
    fn assumptions(&self) -> Vec<String> { vec!["conversion asca::Segment -> model uses the public fields and get_place_sub_nodes(); C18 checks those accessors against the raw bits".into(), "feature -> (node, bit) table typed from the manual's feature chart and the Segment doc comment".into()] }
    fn explore(&self, ctx: &mut Ctx) {
        let p = pool();
        let fams = families();
        let mut idx = 0usize;
        let stride = 1usize;
        for (i, ps) in p.bases.iter().chain(p.dia1.iter()).enumerate() {
            if i >= p.bases.len() && (i % stride) != (ctx.seed as usize) % stride { continue }
            for word in [ps.text.clone(), format!("pa.{}.ta", ps.text)] {
                for fam in &fams {
                    idx += 1;
                    if idx % ctx.nshards != ctx.shard { continue }
                    run_case(self, ctx, json!({"word": word, "seg": ps.seg.to_json(), "family": fam}));
                }
            }
        }
        // random part: matrices that mix fixed-sign and alpha arguments, on words of several segments, so that the scan meets
        // segments which pass the arguments up to an alpha and fail a later one before it reaches a segment that matches
        let n = ctx.tier.pick(300_000, 4_000_000);
        run_tape_batches(self, ctx, "mixed", n, 120, &|t| {
            let nseg = 2 + t.pick(4);
            let mut text = String::new();
            for i in 0..nseg { if i > 0 && t.chance(1, 3) { text.push('.'); } text.push_str(&pick_seg(t, 30).text); }
            let Ok(Ok(pw)) = api::parse_word(&text) else { return None };
            let flat = MWord::from_asca(&pw).flat();
            let tgt = flat[t.pick(flat.len())];
            let mut used: Vec<usize> = vec![]; let mut inp: Vec<(String, usize)> = vec![]; let mut alphas: Vec<&str> = vec![];
            let n_in = 2 + t.pick(3);
            for k in 0..n_in {
                let f = t.pick(26); if used.contains(&f) { continue } used.push(f);
                if !alphas.is_empty() && t.chance(1, 4) { let a = alphas[t.pick(alphas.len())]; inp.push((if t.chance(1, 3) { format!("-{a}") } else { a.to_string() }, f)); }   // a second, comparing use of a bound alpha
                else if (k == 0 || t.chance(1, 3)) && alphas.len() < 2 { let a = ["α", "β"][alphas.len()]; alphas.push(a); inp.push((a.to_string(), f)); }
                else { let b = match tgt.feat(f) { Some(v) if t.chance(4, 5) => v, _ => t.chance(1, 2) }; inp.push(((if b { "+" } else { "-" }).to_string(), f)); }
            }
            let mut out: Vec<(String, usize)> = vec![]; let mut used_o: Vec<usize> = vec![];
            for _ in 0..(1 + t.pick(3)) {
                let g = t.pick(26); if used_o.contains(&g) { continue } used_o.push(g);
                let sign = if !alphas.is_empty() && t.chance(1, 2) { let a = alphas[t.pick(alphas.len())]; if t.chance(1, 3) { format!("-{a}") } else { a.to_string() } } else { (if t.chance(1, 2) { "+" } else { "-" }).to_string() };
                out.push((sign, g));
            }
            Some(json!({"kind": "mixed", "word": text, "in": inp, "out": out}))
        });
        if ctx.tier == Tier::Thorough {
            let t = tables(); let mut k = 0usize;
            for d in &p.dia1 { for d2 in &t.dias {
                k += 1; if k % 4 != (ctx.seed as usize) % 4 { continue }
                let Some(s2) = apply_dia(&d.seg, d2) else { continue };
                if s2 == d.seg { continue }
                let mut text = d.text.clone(); text.push(d2.ch);
                for fam in &fams { idx += 1; if idx % ctx.nshards != ctx.shard { continue } run_case(self, ctx, json!({"word": text, "seg": s2.to_json(), "family": fam})); }
            } }
        }
    }
    fn check(&self, case: &Value) -> Outcome {
        if case["kind"] == "mixed" { return self.check_mixed(case) }
        if case["seg"].is_null() { return self.check_free(case) }
        let text = case["word"].as_str().unwrap_or("");
        let w = match api::parse_word(text) { Ok(Ok(w)) => w, Ok(Err(_)) => return Outcome::skip("asca does not parse this base+diacritic"), Err(a) => return Outcome::fail(a.signature(), json!({"word": text})) };
        let mw = MWord::from_asca(&w);
        // the generator's idea of the segment (model-applied diacritic) must be what asca parsed, and it must sit alone in its syllable
        let want = MSeg::from_json(&case["seg"]);
        let target_ok = if mw.sylls.len() == 1 { mw.sylls[0].segs == vec![want] } else { mw.sylls.len() == 3 && mw.sylls[1].segs == vec![want] };
        if !target_ok { return Outcome::skip("text does not parse to the intended single segment (diacritic semantics differ from the generator's model or the text re-segments)") }
        let mut changed = false;
        for (rule, expect, sig) in cells(case["family"].as_str().unwrap_or("set"), &mw) {
            let got = api::apply_rules(&[rule.clone()], &w);
            match (got, expect) {
                (Err(a), _) => return Outcome::fail(format!("{sig}|{}", a.signature()), json!({"rule": rule, "word": text})),
                (Ok(Err(_)), None) => {}
                (Ok(Ok(g)), None) => return Outcome::fail(sig, json!({"rule": rule, "word": text, "expected": "an error", "got": MWord::from_asca(&g).show()})),
                (Ok(Err(e)), Some(x)) => return Outcome::fail(format!("{sig}|unexpected error"), json!({"rule": rule, "word": text, "expected": x.show(), "got_error": format!("{e:?}")})),
                (Ok(Ok(g)), Some(x)) => {
                    // "[-node] removes the node": once the last sub-node is gone the place node itself must be absent, or `[-place]` stops matching
                    if g.syllables.iter().flat_map(|sy| sy.segments.iter()).any(|sg| sg.is_place_none() != !MSeg::from_asca(sg).has_place()) {
                        return Outcome::fail(format!("{sig}|place node present without any sub-node"), json!({"rule": rule, "word": text}))
                    }
                    let g = MWord::from_asca(&g);
                    if g != x { return Outcome::fail(sig, json!({"rule": rule, "word": text, "expected": x.show(), "got": g.show(), "expected_json": x.to_json(), "got_json": g.to_json()})) }
                    if x != mw { changed = true; }
                }
            }
        }
        if changed { Outcome::pass_nt(hash64(&case.to_string())) } else { Outcome::pass() }
    }
}
