//! C16 — the trace tells the same story as the run.

use crate::api;
use crate::core::*;
use crate::gen::*;
use crate::model::*;
use crate::props::c02::{case_groups, strs};
use serde_json::{json, Value};

pub struct C16;

impl Property for C16 {
    fn id(&self) -> &'static str { "C16" }
    fn rule(&self) -> String {
        "Histories: 1-6 named rule groups (1-2 rules each; full-grammar and prosody-biased generators, 15% of the groups are empty or comment-only, some groups are constructed not to fire) and a phrase of 1-3 generated words. \
         Oracle: trace_changes(G,p) is Ok iff run(G,[p]) is Ok; the reported rule indices are strictly increasing; group i is reported iff the structural state after G0..Gi differs from the state after G0..Gi-1 (states computed independently per word with the structural hook); \
         each reported `after` equals that state; the rendering of the last state (or of the input) equals run(G)(p); get_trace_string lists exactly the reported groups as `Applied \"name\":` followed by `before => after`. \
         Non-trivial: ≥2 groups change the phrase and ≥1 does not. Quick 600k, thorough 8M.".into()
    }
    fn explore(&self, ctx: &mut Ctx) {
        let n = ctx.tier.pick(600_000, 8_000_000);
        run_tape_batches(self, ctx, "traces", n, 600, &|t| {
            let nw = 1 + t.weighted(&[5, 3, 2]);
            let mut words = vec![]; let mut segs = vec![];
            for _ in 0..nw { let w = gen_word(t, WordProfile::PLAIN).text(); if let Ok(Ok(pw)) = api::parse_word(&w) { segs.extend(word_segs(&pw)); } words.push(w); }
            let ng = 1 + t.weighted(&[1, 2, 3, 3, 2, 1]);
            let mut groups = vec![];
            for _ in 0..ng {
                if t.chance(3, 20) { groups.push(if t.chance(1, 2) { vec![] } else { vec![";; nothing here".to_string()] }); continue }
                let nr = 1 + t.weighted(&[3, 1]); let mut rs = vec![];
                for _ in 0..nr {
                    rs.push(match t.weighted(&[5, 3, 2]) {
                        0 => { let mut g = RuleGen::new(RuleProfile { insertion: t.chance(1, 3), ..RuleProfile::FULL }, segs.clone()); rule_text(&g.rule(t)) }
                        1 => { let a = if segs.is_empty() { "a".to_string() } else { segs[t.pick(segs.len())].0.clone() }; format!("{a} > {}", pick_seg(t, 5).text) }
                        _ => { let a = pick_seg(t, 0).text.clone(); format!("{a} > {a}") } // fires but changes nothing
                    });
                }
                groups.push(rs);
            }
            Some(json!({"groups": groups, "words": [words.join(" ")]}))
        });
    }
    fn check(&self, case: &Value) -> Outcome {
        let groups = case_groups(case);
        let phrase = strs(&case["words"]).pop().unwrap_or_default();
        let run = api::run(&groups, &[phrase.clone()], &[], &[]);
        let trace = api::guarded(api::DEFAULT_BUDGET, || asca::trace_changes(&groups, phrase.clone(), &[]).map(|cs| cs.into_iter().map(|c| (c.rule_index, c.after.iter().map(MWord::from_asca).collect::<Vec<_>>(), c.after.iter().map(|w| api::render_word(w).ok().and_then(|r| r.ok()).unwrap_or_default()).collect::<Vec<_>>())).collect::<Vec<_>>()));
        let tstr = api::guarded(api::DEFAULT_BUDGET, || asca::get_trace_string(&groups, phrase.clone(), &[]));
        let (run, trace, tstr) = match (run, trace, tstr) { (Ok(a), Ok(b), Ok(c)) => (a, b, c), _ => return Outcome::skip("a call did not return (C02's business)") };
        let detail = |what: String| json!({"groups": case["groups"], "phrase": phrase, "what": what});
        if run.is_ok() != trace.is_ok() { return Outcome::fail("trace_changes and run disagree on success", detail(format!("run ok={}, trace ok={}", run.is_ok(), trace.is_ok()))) }
        if tstr.is_ok() != run.is_ok() { return Outcome::fail("get_trace_string and run disagree on success", detail(format!("run ok={}, trace string ok={}", run.is_ok(), tstr.is_ok()))) }
        let (Ok(run), Ok(trace), Ok(tstr)) = (run, trace, tstr) else { return Outcome::skip("the history returns Err") };
        // independent states: per word, after each group
        let words: Vec<&str> = phrase.split(' ').collect();
        let mut per_word: Vec<Vec<MWord>> = vec![]; let mut start: Vec<MWord> = vec![]; let mut start_txt = vec![];
        for w in &words {
            let Ok(Ok(pw)) = api::parse_word(w) else { return Outcome::skip("word does not parse") };
            start.push(MWord::from_asca(&pw)); start_txt.push(api::render_word(&pw).ok().and_then(|r| r.ok()).unwrap_or_default());
            match api::apply_groups(&groups, &pw) { Ok(Ok(v)) => per_word.push(v.iter().map(MWord::from_asca).collect()), _ => return Outcome::skip("structural application does not return Ok") }
        }
        if per_word.iter().any(|v| v.len() != groups.len()) { return Outcome::fail("the number of group states differs from the number of rule groups", detail(format!("{} groups, states per word {:?}", groups.len(), per_word.iter().map(|v| v.len()).collect::<Vec<_>>()))) }
        let state = |i: usize| -> Vec<MWord> { per_word.iter().map(|v| v[i].clone()).collect() };
        let mut expected: Vec<usize> = vec![]; let mut prev = start.clone();
        for i in 0..groups.len() { let s = state(i); if s != prev { expected.push(i); } prev = s; }
        let reported: Vec<usize> = trace.iter().map(|c| c.0).collect();
        if !reported.windows(2).all(|p| p[0] < p[1]) { return Outcome::fail("reported rule indices are not strictly increasing", detail(format!("{reported:?}"))) }
        if reported != expected { return Outcome::fail(if reported.len() > expected.len() { "a group that changed nothing is reported" } else { "a group that changed the phrase is not reported (or the wrong one is)" }, detail(format!("reported {reported:?}, changed {expected:?}"))) }
        if trace.iter().any(|c| c.0 >= groups.len()) { return Outcome::fail("a reported rule index does not exist", detail(format!("{reported:?}"))) }
        for (i, after, _) in &trace { if *after != state(*i) { return Outcome::fail("a reported state differs from the run of the groups up to it", detail(format!("group {i}: reported {:?}, independent {:?}", after.iter().map(|w| w.show()).collect::<Vec<_>>(), state(*i).iter().map(|w| w.show()).collect::<Vec<_>>()))) } }
        let last_txt: Vec<String> = trace.last().map(|c| c.2.clone()).unwrap_or(start_txt.clone());
        if run.len() != 1 || run[0] != last_txt.join(" ") { return Outcome::fail("the last reported state is not what run returns", detail(format!("run {:?}, last trace state {:?}", run, last_txt.join(" ")))) }
        // the printed trace
        let mut want: Vec<String> = vec![]; let mut last = start_txt.iter().map(|w| format!("{w} ")).collect::<String>();
        for (i, _, txts) in &trace { want.push(format!("Applied \"{}\":", groups[*i].name)); let now = txts.iter().map(|w| format!("{w} ")).collect::<String>(); want.push(format!("{last}=> {now}")); last = now; }
        if tstr != want { return Outcome::fail("get_trace_string prints a different sequence", detail(format!("printed {tstr:?}, expected {want:?}"))) }
        let o = if expected.len() >= 2 && expected.len() < groups.len() { Outcome::pass_nt(hash64(&case.to_string())) } else { Outcome::pass() };
        o.with_class(format!("changing groups:{}", expected.len().min(4)))
    }
}
