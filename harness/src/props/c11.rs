//! C11 — words are processed independently and returned in order.

use crate::api;
use crate::core::*;
use crate::gen::*;
use crate::props::c02::{case_groups, strs};
use asca::Error;
use serde_json::{json, Value};

pub struct C11;

fn err_key(e: &Error) -> String {
    // variant, plus the offending word text for word syntax errors (positions in the word list legitimately differ between runs)
    match e { Error::WordSyn(w) => { let d = format!("{w:?}"); let text = d.split('"').nth(1).unwrap_or("").to_string(); format!("{}:{text}", api::err_variant(e)) } _ => api::err_variant(e) }
}

impl Property for C11 {
    fn id(&self) -> &'static str { "C11" }
    fn rule(&self) -> String {
        "Rule lists (1-3 groups of 1-2 full-grammar rules, rich in alphas and variables — the state that could leak between words) and 2-8 generated words (one list in four also holds the same word twice in two notations, plain IPA and Americanist letters, adjacent or apart; one in six an exact repeat); in 20% of the cases one word is unparseable (stray `*`, diacritic first, tone too long) and the list may contain a word on which a rule raises a runtime error. \
         Oracle (public API only): every word is first run alone; then the whole list, its reversal, a rotation and a sublist are run: result length == number of lines and entry i == the singleton result of that line, whenever every word succeeds; a line `u v` gives `run(u) + ' ' + run(v)`; \
         if some singleton fails, the list run fails with the error (variant; for word syntax errors also the word text) of the first failing word in phase order: all words are parsed before any rule is applied, so word syntax errors come first, then rule syntax, then the first word whose application fails. \
         Non-trivial: at least two words changed, differently from each other. Quick 600k, thorough 8M.".into()
    }
    fn explore(&self, ctx: &mut Ctx) {
        let n = ctx.tier.pick(600_000, 8_000_000);
        run_tape_batches(self, ctx, "lists", n, 600, &|t| {
            let nw = 2 + t.pick(7);
            let mut words = vec![]; let mut segs = vec![];
            for _ in 0..nw { let p = if t.chance(1, 4) { WordProfile::RICH } else { WordProfile::PLAIN }; let w = gen_word(t, p).text(); if let Ok(Ok(pw)) = api::parse_word(&w) { segs.extend(word_segs(&pw)); } words.push(w); }
            add_twin_words(t, &mut words);
            if t.chance(1, 5) { let i = t.pick(words.len()); let bad = ["*a", "ʰa", "pa123456", "pa::ːq‼x", "a%"][t.pick(5)]; words[i] = bad.to_string(); }
            let ng = 1 + t.weighted(&[5, 3, 1]);
            let mut groups = vec![];
            for _ in 0..ng { let nr = 1 + t.weighted(&[3, 1]); let mut rs = vec![]; for _ in 0..nr { let mut g = RuleGen::new(RuleProfile::FULL, segs.clone()); rs.push(rule_text(&g.rule(t))); } groups.push(rs); }
            Some(json!({"groups": groups, "words": words}))
        });
    }
    fn check(&self, case: &Value) -> Outcome {
        let groups = case_groups(case); let words = strs(&case["words"]);
        let run = |ws: &[String]| api::run(&groups, ws, &[], &[]);
        let mut singles = vec![];
        for w in &words { match run(&[w.clone()]) { Err(_) => return Outcome::skip("a call did not return (C02's business)"), Ok(r) => singles.push(r) } }
        // expected outcome of a list run
        let expect = |idx: &[usize]| -> Result<Vec<String>, String> {
            if let Some(e) = idx.iter().filter_map(|i| singles[*i].as_ref().err()).find(|e| matches!(e, Error::WordSyn(_) | Error::WordRun(_))) { return Err(err_key(e)) }
            // rule syntax errors found while parsing; the four raised only when a rule is split into sub-rules at application time count as application errors
            let late = |e: &Error| { let v = api::err_variant(e); ["RuleSyn(UnbalancedRuleIO)", "RuleSyn(UnbalancedRuleEnv)", "RuleSyn(InsertDelete)", "RuleSyn(InsertMetath)"].contains(&v.as_str()) };
            if let Some(e) = idx.iter().filter_map(|i| singles[*i].as_ref().err()).find(|e| matches!(e, Error::RuleSyn(_)) && !late(e)) { return Err(err_key(e)) }
            if let Some(e) = idx.iter().filter_map(|i| singles[*i].as_ref().err()).next() { return Err(err_key(e)) }
            Ok(idx.iter().map(|i| singles[*i].as_ref().unwrap()[0].clone()).collect())
        };
        let n = words.len();
        let mut orders: Vec<(&str, Vec<usize>)> = vec![("as given", (0..n).collect()), ("reversed", (0..n).rev().collect()), ("rotated", (0..n).map(|i| (i + 1) % n).collect()), ("sublist", (0..n).step_by(2).collect()), ("duplicated", (0..n).chain(0..1).collect())];
        orders.dedup_by(|a, b| a.1 == b.1);
        for (name, idx) in &orders {
            let ws: Vec<String> = idx.iter().map(|i| words[*i].clone()).collect();
            let got = match run(&ws) { Err(_) => return Outcome::skip("a call did not return (C02's business)"), Ok(r) => r.map_err(|e| err_key(&e)) };
            let want = expect(idx);
            if got != want {
                let sig = match (&got, &want) { (Ok(a), Ok(b)) if a.len() != b.len() => "result length differs from the number of lines", (Ok(_), Ok(_)) => "an entry differs from the singleton run of its line", (Err(_), Err(_)) => "a different error than that of the first failing word", (Ok(_), Err(_)) => "list succeeds although a word fails alone", (Err(_), Ok(_)) => "list fails although every word succeeds alone" };
                return Outcome::fail(sig, json!({"order": name, "words": ws, "groups": case["groups"], "got": format!("{got:?}"), "expected_from_singletons": format!("{want:?}")}))
            }
        }
        // phrases: a line of two words
        // a line of two words of which one or both fail: the line fails with the error of its first failing word
        if n >= 2 && (singles[0].is_err() || singles[1].is_err()) && !words[0].contains(' ') && !words[1].contains(' ') && !words[0].is_empty() && !words[1].is_empty() {
            let line = format!("{} {}", words[0], words[1]);
            let want = expect(&[0, 1]);   // same phases as for a list: word syntax, rule syntax, then the first word whose application fails
            match run(&[line.clone()]) {
                Err(_) => return Outcome::skip("a call did not return (C02's business)"),
                Ok(got) => { let got = got.map(|_| ()).map_err(|e| err_key(&e)); if got != want.clone().map(|_| ()) { return Outcome::fail("a line of several words does not fail with the error of its first failing word", json!({"line": line, "got": format!("{got:?}"), "expected": format!("{want:?}"), "groups": case["groups"]})) } }
            }
        }
        // (not when a rule deleted a whole word: an empty word is C08's business, and what a phrase prints for it is not defined by the property)
        if n >= 2 && singles[0].is_ok() && singles[1].is_ok() && !singles[0].as_ref().unwrap()[0].is_empty() && !singles[1].as_ref().unwrap()[0].is_empty() {
            let line = format!("{} {}", words[0], words[1]);
            match run(&[line.clone()]) {
                Ok(Ok(v)) => { let want = format!("{} {}", singles[0].as_ref().unwrap()[0], singles[1].as_ref().unwrap()[0]); if v.len() != 1 || v[0] != want { return Outcome::fail("a phrase is not the space-joined result of its words", json!({"line": line, "got": v, "expected": want, "groups": case["groups"]})) } }
                Ok(Err(e)) => return Outcome::fail("a phrase fails although its words succeed alone", json!({"line": line, "error": format!("{e:?}")})),
                Err(_) => return Outcome::skip("a call did not return (C02's business)"),
            }
        }
        let changed: std::collections::BTreeSet<(String, String)> = words.iter().zip(&singles).filter_map(|(w, s)| s.as_ref().ok().and_then(|o| { let base = api::run(&[], &[w.clone()], &[], &[]).ok()?.ok()?; if base[0] != o[0] { Some((base[0].clone(), o[0].clone())) } else { None } })).collect();
        let o = if changed.len() >= 2 { Outcome::pass_nt(hash64(&case.to_string())) } else { Outcome::pass() };
        o.with_class(if singles.iter().all(|s| s.is_ok()) { "all ok" } else { "some word fails" })
    }
}
