//! C02 — every call returns: no panic, no abort, no endless loop.

use crate::api::{self, Abn};
use crate::core::*;
use crate::gen::*;
use asca::RuleGroup;
use serde_json::{json, Value};
use std::cell::RefCell;
use std::sync::OnceLock;

pub struct C02;

pub fn seeds() -> &'static (Vec<String>, Vec<String>) {
    static S: OnceLock<(Vec<String>, Vec<String>)> = OnceLock::new();
    S.get_or_init(|| {
        let rd = |p: &str| std::fs::read_to_string(format!("{VERIF}/seeds/{p}")).unwrap_or_default().lines().map(|s| s.to_string()).filter(|s| !s.is_empty()).collect::<Vec<_>>();
        (rd("rules.txt"), rd("words.txt"))
    })
}

thread_local! { static STATS: RefCell<(u64, Vec<u64>)> = const { RefCell::new((0, Vec::new())) }; }

pub fn case_groups(case: &Value) -> Vec<RuleGroup> {
    case["groups"].as_array().map(|gs| gs.iter().enumerate().map(|(i, g)| { let r = strs(g); if r.is_empty() && g.as_array().map(|a| a.is_empty()).unwrap_or(false) && i % 2 == 1 { RuleGroup::new() } else { RuleGroup { name: format!("g{i}"), rule: r, description: String::new() } } }).collect()).unwrap_or_default()
}
pub fn strs(v: &Value) -> Vec<String> { v.as_array().map(|a| a.iter().map(|x| x.as_str().unwrap_or("").to_string()).collect()).unwrap_or_default() }

/// step budget: proportional to |word| x |rule| with a generous constant, capped
pub fn budget_for(groups: &[RuleGroup], words: &[String]) -> u64 {
    let r: u64 = groups.iter().flat_map(|g| g.rule.iter()).map(|s| 1 + s.chars().count() as u64).sum::<u64>() + 1;
    let w: u64 = words.iter().map(|s| 1 + s.chars().count() as u64).sum::<u64>() + 1;
    (20_000 + 40 * r * w).min(4_000_000)
}

/// rule profile of the zero-tolerance structured source (constructs behind known findings are excluded by construction)
pub const SAFE: RuleProfile = RuleProfile { insertion: false, input_ellipsis: false, input_bound: false, out_struct: false, uneven: false, out_length_multi: false, ..RuleProfile::FULL };

// ---- generators -------------------------------------------------------------------------------

pub fn gen_structured_case(t: &mut Tape, prof: RuleProfile) -> Value {
    let nw = 1 + t.weighted(&[6, 2]);
    let mut words = vec![];
    let mut segs = vec![];
    for _ in 0..nw {
        let prof_w = if t.chance(1, 3) { WordProfile::RICH } else { WordProfile::PLAIN };
        let w = gen_word(t, prof_w);
        let text = w.text();
        if let Ok(Ok(pw)) = api::parse_word(&text) { segs.extend(word_segs(&pw)); }
        words.push(text);
    }
    let ngroups = 1 + t.weighted(&[8, 2]);
    let mut groups = vec![];
    let mut kinds = vec![]; let mut uses = std::collections::BTreeSet::new();
    for _ in 0..ngroups {
        let nr = 1 + t.weighted(&[7, 2, 1]);
        let mut rules = vec![];
        for _ in 0..nr {
            let mut g = RuleGen::new(prof, segs.clone());
            let r = g.rule(t);
            kinds.push(rule_kind(&r)); uses.extend(g.uses.iter().copied());
            rules.push(rule_text(&r));
        }
        groups.push(rules);
    }
    json!({"source": if prof.insertion { "structured" } else { "structured-safe" }, "groups": groups, "words": words, "into": [], "from": [], "kinds": kinds, "uses": uses.into_iter().collect::<Vec<_>>()})
}

fn tokenise(s: &str) -> Vec<String> {
    let mut out = vec![]; let mut cur = String::new(); let mut mode = 0; // 1 letters 2 digits
    for c in s.chars() {
        let m = if c.is_ascii_alphabetic() { 1 } else if c.is_ascii_digit() { 2 } else { 0 };
        if m != 0 && m == mode { cur.push(c); continue }
        if !cur.is_empty() { out.push(std::mem::take(&mut cur)); }
        mode = m;
        if c.is_whitespace() { mode = 0; continue }
        cur.push(c);
        if m == 0 { out.push(std::mem::take(&mut cur)); }
    }
    if !cur.is_empty() { out.push(cur); }
    out
}

fn token_pool() -> &'static Vec<String> {
    static P: OnceLock<Vec<String>> = OnceLock::new();
    P.get_or_init(|| {
        let mut v: Vec<String> = ["[", "]", "{", "}", "(", ")", "<", ">", "⟨", "⟩", ":{", "}:", ",", ":", "=", ">", "=>", "->", "/", "//", "|", "_", "#", "$", "%", "*", "∅", "&", "+", "-", "...", "..", "…", ";;",
            "0", "1", "2", "99999999999999999999", "α", "β", "-α", "A", "tone", "long", "stress", "place", "C", "V", "a", "t", "ʰ", "ː", "'", "^", "."].iter().map(|s| s.to_string()).collect();
        let mut seen: std::collections::BTreeSet<String> = v.iter().cloned().collect();
        for r in &seeds().0 { for tk in tokenise(r) { if seen.insert(tk.clone()) { v.push(tk); } } }
        v
    })
}

fn mutate(t: &mut Tape, rule: &str) -> String {
    let mut toks = tokenise(rule);
    let n = 1 + t.weighted(&[5, 3, 2]);
    for _ in 0..n {
        if toks.is_empty() { toks.push(token_pool()[t.pick(token_pool().len())].clone()); continue }
        let i = t.pick(toks.len());
        match t.pick(5) {
            0 => { toks.remove(i); }
            1 => { let x = toks[i].clone(); toks.insert(i, x); }
            2 => { if i + 1 < toks.len() { toks.swap(i, i + 1); } }
            3 => { toks[i] = token_pool()[t.pick(token_pool().len())].clone(); }
            _ => { toks.insert(i, token_pool()[t.pick(token_pool().len())].clone()); }
        }
    }
    // re-join: letters/digits need separators only where two alphanumeric tokens meet
    let mut out = String::new();
    for tk in &toks {
        if let (Some(a), Some(b)) = (out.chars().last(), tk.chars().next()) { if (a.is_alphanumeric() && b.is_alphanumeric()) || t.chance(1, 6) { out.push(' '); } }
        out.push_str(tk);
    }
    out
}

pub fn gen_mutated_case(t: &mut Tape) -> Value {
    let (rules, words) = seeds();
    let from_seed = t.chance(1, 2);
    let (base_rule, word) = if from_seed && !rules.is_empty() {
        (rules[t.pick(rules.len())].clone(), if t.chance(2, 3) { words[t.pick(words.len())].clone() } else { gen_word(t, WordProfile::PLAIN).text() })
    } else {
        let w = gen_word(t, WordProfile::PLAIN); let text = w.text();
        let segs = match api::parse_word(&text) { Ok(Ok(pw)) => word_segs(&pw), _ => vec![] };
        let mut g = RuleGen::new(RuleProfile::FULL, segs);
        (rule_text(&g.rule(t)), text)
    };
    let m = mutate(t, &base_rule);
    let mut words = vec![word];
    if t.chance(1, 5) { let w = &words[0]; let toks: Vec<String> = w.chars().map(|c| c.to_string()).collect(); let mut tw = toks.clone(); if !tw.is_empty() { let i = t.pick(tw.len()); match t.pick(3) { 0 => { tw.remove(i); } 1 => { let x = tw[i].clone(); tw.insert(i, x); } _ => { tw[i] = NOISE[t.pick(NOISE.len())].to_string(); } } } words[0] = tw.concat(); }
    json!({"source": "mutated", "groups": [[m]], "words": words, "into": [], "from": [], "base": base_rule})
}

/// words with generated romanisers / deromanisers (valid, or with 1-3 token mutations), zero or one segmental rule:
/// the alias lexer/parser, the deromanising word reader and the romanising renderer
pub fn gen_aliased_case(t: &mut Tape) -> Value {
    let nw = 1 + t.weighted(&[6, 3]);
    let mut words = vec![]; let mut segs = vec![];
    for _ in 0..nw {
        let wp = if t.chance(1, 3) { WordProfile::RICH } else { WordProfile::PLAIN }; let w = gen_word(t, wp).text();
        if let Ok(Ok(pw)) = api::parse_word(&w) { segs.extend(word_segs(&pw)); }
        words.push(w);
    }
    let rules: Vec<String> = if t.chance(1, 2) { let mut g = RuleGen::new(RuleProfile::SEGMENTAL, segs.clone()); vec![rule_text(&g.rule(t))] } else { vec![] };
    let mut from = if t.chance(3, 4) { gen_romanisers(t, &segs).0 } else { vec![] };
    let mut into = vec![];
    if from.is_empty() || t.chance(1, 3) {
        let (lines, table) = gen_deromanisers(t);
        into = lines;
        // sprinkle the fresh strings (whole, or only their first character) into the words
        for w in words.iter_mut() { for (f, _) in &table { if t.chance(1, 2) {
            let cs: Vec<char> = w.chars().collect(); let at = t.pick(cs.len() + 1);
            let piece: String = if t.chance(1, 5) { f.chars().take(1).collect() } else { f.clone() };
            *w = cs[..at].iter().collect::<String>() + &piece + &cs[at..].iter().collect::<String>();
        } } }
    }
    if t.chance(1, 3) { let which = t.chance(1, 2); let v = if which && !from.is_empty() || into.is_empty() { &mut from } else { &mut into }; if !v.is_empty() { let i = t.pick(v.len()); let m = mutate(t, &v[i]); v[i] = m; } }
    json!({"source": "aliased", "groups": [rules], "words": words, "into": into, "from": from})
}

/// the special rule shapes that other checks generate (C14's segment-only and prosody-only rules incl. `$X > &`, `X$ > &`, `$ > *`, `* > $`; C07's restating rules):
/// those checks skip a call that does not return as "C02's business", so C02 has to see the same shapes
pub fn gen_borrowed_case(t: &mut Tape) -> Value {
    let wp = if t.chance(3, 10) { WordProfile::RICH } else { WordProfile::PLAIN };
    let word = gen_word(t, wp).text();
    let segs = match api::parse_word(&word) { Ok(Ok(pw)) => word_segs(&pw), _ => vec![] };
    let (r, from) = match t.pick(3) { 0 => (crate::props::c14::seg_only_rule(t, segs).0, "c14-seg"), 1 => (crate::props::c14::prosody_rule(t, segs).0, "c14-prosody"), _ => (crate::props::c07::restate_rule(t, segs), "c07-restate") };
    json!({"source": "borrowed", "groups": [[rule_text(&r)]], "words": [word], "into": [], "from": [], "base": from})
}

const NOISE: &[&str] = &["a", "e", "i", "o", "u", "p", "t", "k", "s", "n", "m", "r", "l", "h", "j", "w", "ɡ", "g", "ʔ", "?", "!", "ǃ", "ŋ", "ǀ", "q", "ɴ", "ʘ", "t͡s", "d͡ʒ", "ᵐ", "ⁿ", "ᵑ", "\u{0361}", "\u{035C}", "^",
    "ʰ", "ʷ", "ʲ", "̃", "̥", "̩", "̯", "ʼ", "ˀ", "ˤ", "ː", ":", ";", ".", "ˈ", "ˌ", "'", ",", "0", "1", "2", "5", "9", "51", "12345", " ", "\t",
    "[", "]", "{", "}", "(", ")", "<", ">", "⟨", "⟩", ":{", "}:", "=", "=>", "->", "/", "//", "|", "_", "__", "#", "$", "%", "*", "∅", "&", "+", "-", "...", "..", "…", "⋯", ";;", "\\", "@", "@{acute}", "\\u{41}",
    "α", "β", "ω", "-α", "A", "B", "C", "V", "O", "S", "X", "Z", "cons", "son", "syll", "voice", "long", "stress", "tone", "tone:5", "place", "lab", "PLACE", "ł", "ñ", "¢", "ƛ", "λ", "φ", "ã", "ɚ", "𝼆", "𝼆̬", "\u{1F600}", "\u{200B}", "\u{0301}", "あ", "Я"];

fn noise_string(t: &mut Tape, max: usize) -> String { let n = t.pick(max + 1); (0..n).map(|_| NOISE[t.pick(NOISE.len())]).collect() }

pub fn gen_noise_case(t: &mut Tape) -> Value {
    let which = t.pick(4);
    let rule = if which == 0 || t.chance(1, 2) { noise_string(t, 14) } else { seeds().0[t.pick(seeds().0.len())].clone() };
    let word = if which == 1 || t.chance(1, 2) { noise_string(t, 10) } else { seeds().1[t.pick(seeds().1.len())].clone() };
    let into = if which == 2 { vec![noise_string(t, 12)] } else { vec![] };
    let from = if which == 3 { vec![noise_string(t, 12)] } else { vec![] };
    json!({"source": "noise", "groups": [[rule]], "words": [word], "into": into, "from": from})
}

// ---- oracle -----------------------------------------------------------------------------------

pub fn check_case(case: &Value) -> Outcome {
    let groups = case_groups(case);
    let words = strs(&case["words"]); let into = strs(&case["into"]); let from = strs(&case["from"]);
    let budget = budget_for(&groups, &words);
    let mut nontrivial = false;
    let mut class = vec![format!("source:{}", case["source"].as_str().unwrap_or("?"))];
    // in the zero-tolerance structured source a step-budget exhaustion is never attributed to a listed finding
    let safe = case["source"] == "structured-safe";
    let fail = |api: &str, a: &Abn| Outcome::fail(if safe && matches!(a, Abn::Budget { .. }) { format!("safe|{}", a.signature()) } else { a.signature() }, json!({"api": api, "abnormal": format!("{a:?}"), "budget": budget}));
    // run
    let r = api::guarded(budget, || asca::run(&groups, &words, &into, &from));
    STATS.with(|s| { let mut s = s.borrow_mut(); let tk = api::last_ticks(); if r.is_ok() { s.0 = s.0.max(tk); s.1.push(tk * 1000 / budget.max(1)); } });
    match &r {
        Err(a) => return fail("run", a),
        Ok(Err(e)) => {
            class.push(format!("err:{}", api::err_variant(e)));
            let v = api::err_variant(e);
            if !v.starts_with("RuleSyn(UnknownCharacter") && !v.starts_with("WordSyn(UnknownChar") { nontrivial = case["source"] != "structured"; }
            if let Err(a) = api::format_error(e, &groups, &words, &into, &from) { return Outcome::fail(format!("format|{}", a.signature()), json!({"api": "run+format", "error": format!("{e:?}")})) }
        }
        Ok(Ok(out)) => {
            class.push("ok".into());
            // fired? compare with the empty rule list
            if let Ok(Ok(base)) = api::guarded(budget, || asca::run(&[], &words, &into, &from)) { if &base != out { nontrivial = true; class.push("fired".into()); } }
        }
    }
    // the two trace entry points, on the first phrase
    if let Some(w0) = words.first() {
        let r2 = api::guarded(budget, || asca::get_trace_string(&groups, w0.clone(), &into));
        match &r2 { Err(a) => return fail("get_trace_string", a),
                    Ok(Err(e)) => if let Err(a) = api::format_error(e, &groups, &words, &into, &from) { return Outcome::fail(format!("format|{}", a.signature()), json!({"api": "trace+format", "error": format!("{e:?}")})) },
                    _ => {} }
        let r3 = api::guarded(budget, || asca::trace_changes(&groups, w0.clone(), &into).map(|c| c.len()));
        if let Err(a) = &r3 { return fail("trace_changes", a) }
    }
    if let Some(k) = case["kinds"].as_array() { for x in k { class.push(format!("kind:{}", x.as_str().unwrap_or("?"))); } }
    Outcome::Pass { nontrivial: if nontrivial { Some(hash64(&(case["groups"].to_string(), case["words"].to_string(), case["into"].to_string(), case["from"].to_string()))) } else { None }, class }
}

impl Property for C02 {
    fn id(&self) -> &'static str { "C02" }
    fn rule(&self) -> String {
        "Four generated sources, each run through asca::run, get_trace_string and trace_changes under catch_unwind and a step budget \
         (20k + 40·|rules chars|·|word chars| ticks, cap 4M; ticks are counted at every loop head of lexers, parsers, word parser and rule interpreter), \
         and every returned Err is passed to its formatter: (0) structured-safe — as (1) but without insertion rules, `...`/`$` in inputs, structure outputs and uneven input/output lengths (the constructs behind the listed hang findings are excluded by construction; a step-budget exhaustion here is never attributed to a known finding); (1) structured — 1-2 words and 1-2 rule groups of 1-3 rules from the full-grammar AST generator \
         (all four rule types, sets, optionals, ellipses, structures, variables, alphas, env sets, condensed rules), elements word-directed so most rules fire; \
         (2) token-level mutations (delete/duplicate/swap/replace/insert, 1-3 of them) of valid rules taken from the repository's tests/examples or the structured generator; \
         (3) character noise over every character either lexer treats specially, IPA bases, diacritics, digits, letters, escapes and a few astral/combining characters, \
         in the rule, word or alias position; (4) aliased — generated words with generated romanisers (single elements and 2-3 element sequences with modifiers, groups and matrices that follow the word's segments across syllable ends, `+`/`*` outputs) \
         and/or deromanisers (fresh strings, whole or cut short, sprinkled into the words), valid or token-mutated, with zero or one segmental rule; (5) borrowed — the special rule shapes of C14 (segment-only, prosody-only incl. `$X > &`, `X$ > &`, `$ > *`, `* > $`) and C07 (restating rules), because those checks skip calls that do not return. Non-trivial: structured = the list parsed and changed at least one word; mutated/noise = the call got beyond the first character \
         (Ok that changed a word, or an Err other than UnknownCharacter/UnknownChar). Distinct = hash of (rules, words, aliases).".into()
    }
    fn assumptions(&self) -> Vec<String> { vec!["loops without a tick (bounded copy loops) cannot hang; a 25-minute driver watchdog backs this up and yields exit 2, never a violation".into(),
        "a budget exhaustion is treated as non-termination: the budget is >100x the largest tick count seen on any terminating case (max_ticks_ok and the per-mille histogram are in the evidence)".into()] }
    fn explore(&self, ctx: &mut Ctx) {
        ctx.track_inflight = true;
        let n1 = ctx.tier.pick(320_000, 4_000_000); let n2 = ctx.tier.pick(400_000, 4_000_000); let n3 = ctx.tier.pick(240_000, 2_400_000);
        run_tape_batches(self, ctx, "structured-safe", n1, 400, &|t| Some(gen_structured_case(t, SAFE)));
        run_tape_batches(self, ctx, "structured", n1, 400, &|t| Some(gen_structured_case(t, RuleProfile::FULL)));
        run_tape_batches(self, ctx, "mutated", n2, 300, &|t| Some(gen_mutated_case(t)));
        run_tape_batches(self, ctx, "noise", n3, 120, &|t| Some(gen_noise_case(t)));
        run_tape_batches(self, ctx, "aliased", n3, 300, &|t| Some(gen_aliased_case(t)));
        run_tape_batches(self, ctx, "borrowed", n3, 400, &|t| Some(gen_borrowed_case(t)));
        STATS.with(|s| { let s = s.borrow(); ctx.max_extra("max_ticks_ok", s.0);
            let mut v = s.1.clone(); v.sort(); if !v.is_empty() { ctx.max_extra("max_permille_of_budget_p999", v[(v.len() * 999 / 1000).min(v.len() - 1)]); ctx.max_extra("max_permille_of_budget", *v.last().unwrap()); } });
    }
    fn check(&self, case: &Value) -> Outcome { check_case(case) }
    /// thorough tier: a coverage-guided libFuzzer campaign (cargo-fuzz, ASan) over the byte-decoded target /verif/fuzzing/fuzz/fuzz_targets/fz_run.rs,
    /// whose oracle is the same as above; every case the target flags is re-checked here through `check_case`.
    fn post(&self, tier: Tier, seed: u64, _results: &[Value], extra: &mut std::collections::BTreeMap<String, Value>) -> Vec<(String, Value, Value)> {
        if tier != Tier::Thorough || std::env::var("VERIF_NO_LIBFUZZER").is_ok() { return vec![] }
        let runs: u64 = std::env::var("VERIF_FUZZ_RUNS").ok().and_then(|s| s.parse().ok()).unwrap_or(1_500_000);
        let fz = format!("{VERIF}/target/tmp/fz"); let _ = std::fs::remove_dir_all(&fz);
        let corpus = format!("{VERIF}/target/tmp/fzcorpus"); let _ = std::fs::remove_dir_all(&corpus); let _ = std::fs::create_dir_all(&corpus);
        for (i, r) in seeds().0.iter().enumerate().take(400) { let mut b = vec![2u8, 0]; b.extend(r.as_bytes()); let _ = std::fs::write(format!("{corpus}/seed{i}"), b); }
        let logdir = format!("{VERIF}/target/tmp/fzlogs"); let _ = std::fs::remove_dir_all(&logdir); let _ = std::fs::create_dir_all(&logdir);
        let build = std::process::Command::new("cargo").args(["+nightly", "fuzz", "build", "--fuzz-dir", "/verif/fuzzing/fuzz", "--release", "fz_run"]).current_dir(format!("{VERIF}/fuzzing")).env("CARGO_NET_OFFLINE", "true").output();
        if !build.map(|o| o.status.success()).unwrap_or(false) { extra.insert("libfuzzer".into(), json!("fuzz target did not build (nightly toolchain / cargo-fuzz unavailable): libFuzzer part skipped")); return vec![] }
        let status = std::process::Command::new("cargo").args(["+nightly", "fuzz", "run", "--fuzz-dir", "/verif/fuzzing/fuzz", "--release", "fz_run", &corpus, "--", &format!("-runs={runs}"), "-len_control=0", "-max_len=256", &format!("-seed={}", seed.max(1)), "-jobs=16", "-workers=16", "-print_final_stats=1"])
            .current_dir(&logdir).env("CARGO_NET_OFFLINE", "true").env("RUST_BACKTRACE", "0").stdout(std::process::Stdio::null()).stderr(std::process::Stdio::null()).status();
        let mut total_runs = 0u64;
        if let Ok(rd) = std::fs::read_dir(&logdir) { for e in rd.filter_map(|e| e.ok()) { if let Ok(t) = std::fs::read_to_string(e.path()) { for l in t.lines() { if let Some(x) = l.strip_prefix("stat::number_of_executed_units:") { total_runs += x.trim().parse::<u64>().unwrap_or(0); } } } } }
        extra.insert("libfuzzer_executions".into(), json!(total_runs));
        extra.insert("libfuzzer".into(), json!(format!("cargo +nightly fuzz run fz_run: 16 jobs x {runs} runs, ASan, corpus seeded with 400 valid rules, exit {:?}", status.map(|s| s.code()))));
        let mut out = vec![];
        if let Ok(rd) = std::fs::read_dir(&fz) { for e in rd.filter_map(|e| e.ok()) {
            let Ok(case): Result<Value, _> = serde_json::from_str(&std::fs::read_to_string(e.path()).unwrap_or_default()) else { continue };
            if let Outcome::Fail { signature, detail } = check_case(&case) { out.push((signature, case, detail)); }
        } }
        out
    }
}
