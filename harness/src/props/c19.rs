//! C19 — the command line gives the library's answers and converts files losslessly (subprocess differential).

use crate::api;
use crate::core::*;
use crate::gen::*;
use asca::RuleGroup;
use serde_json::{json, Value};
use std::path::{Path, PathBuf};
use std::process::{Command, Stdio};
use std::time::{Duration, Instant};

pub struct C19;

pub const CLI: &str = "/verif/target/cli/release/asca";

pub struct Ran { pub code: Option<i32>, pub signal: bool, pub timed_out: bool, pub stdout: String }

pub fn run_cli(dir: &Path, args: &[&str]) -> Ran {
    let mut child = match Command::new(CLI).args(args).current_dir(dir).stdin(Stdio::null()).stdout(Stdio::piped()).stderr(Stdio::null()).env("NO_COLOR", "1").spawn() {
        Ok(c) => c, Err(_) => return Ran { code: None, signal: false, timed_out: true, stdout: String::new() } };
    let t0 = Instant::now();
    loop {
        match child.try_wait() {
            Ok(Some(st)) => { use std::os::unix::process::ExitStatusExt; let mut out = String::new(); if let Some(mut o) = child.stdout.take() { use std::io::Read; let _ = o.read_to_string(&mut out); }
                              return Ran { code: st.code(), signal: st.signal().is_some(), timed_out: false, stdout: out } }
            Ok(None) => { if t0.elapsed() > Duration::from_secs(if api::is_shrinking() { 8 } else { 30 }) { let _ = child.kill(); let _ = child.wait(); return Ran { code: None, signal: false, timed_out: true, stdout: String::new() } } std::thread::sleep(Duration::from_millis(2)); }
            Err(_) => return Ran { code: None, signal: false, timed_out: true, stdout: String::new() },
        }
    }
}

pub fn fresh_dir(tag: &str, case: &Value) -> PathBuf {
    let d = PathBuf::from(format!("{VERIF}/target/tmp/{tag}/{}_{:016x}", std::process::id(), hash64(&case.to_string())));
    let _ = std::fs::remove_dir_all(&d); let _ = std::fs::create_dir_all(&d); d
}

pub fn rsca_text(groups: &[(String, Vec<String>, Vec<String>)], blank_between_rules: bool) -> String {
    let mut s = String::new();
    for (gi, (name, rules, desc)) in groups.iter().enumerate() {
        // an untitled group that follows a group with a description needs no `@` line: a rule line after description lines opens a new group
        let bare = name.is_empty() && gi > 0 && !groups[gi - 1].2.is_empty() && groups[gi - 1].2.iter().all(|d| !d.is_empty()) && !rules.is_empty() && (gi + rules.len()) % 2 == 0;
        if !bare { s.push_str(&format!("@ {name}\n")); } else if s.ends_with("\n\n") { s.pop(); }
        for (i, r) in rules.iter().enumerate() { s.push_str(&format!("{}{r}\n", if (gi + i) % 2 == 0 { "    " } else { "\t" })); if blank_between_rules && i + 1 < rules.len() && (gi + i) % 3 == 0 { s.push_str("    \n"); } }
        for d in desc { s.push_str(&format!("# {d}\n")); }
        s.push('\n');
    }
    s
}
pub fn to_rulegroups(groups: &[(String, Vec<String>, Vec<String>)]) -> Vec<RuleGroup> { groups.iter().map(|(n, r, d)| RuleGroup { name: n.clone(), rule: r.clone(), description: d.join("\n") }).collect() }

/// word file lines: (word, optional comment); a line with an empty word is a blank or comment-only line
pub fn wsca_text(lines: &[(String, Option<String>)]) -> String { lines.iter().map(|(w, c)| match c { Some(c) => if w.is_empty() { format!("# {c}") } else { format!("{w}  # {c}") }, None => w.clone() }).collect::<Vec<_>>().join("\n") }

pub fn simple_rule(t: &mut Tape, segs: &[(String, crate::model::MSeg)]) -> String {
    let a = if !segs.is_empty() && t.chance(3, 4) { segs[t.pick(segs.len())].0.clone() } else { pool().common[t.pick(pool().common.len())].text.clone() };
    let b = pool().common[t.pick(pool().common.len())].text.clone();
    match t.pick(6) { 0 => format!("{a} > {b}"), 1 => format!("{a} > {b} / _ #"), 2 => format!("{a} > [+voice] / V _ V"), 3 => format!("{a} > {b} / # _ ;; note"), 4 => format!("V > [+nasal] / _ {a}"), _ => format!("{a} > [{}{}]", if t.chance(1, 2) { "+" } else { "-" }, crate::model::FEATS[t.pick(14)].0) }
}

const NAMES: &[&str] = &["Grimms Law", "Verner", "a-mutation", "Final Devoicing", "Umlaut (i)", "Nasal loss 2", "Lenition", "Hap(lo)logy", "Cluster Simplification", "ǃ click shift"];
const DESCS: &[&str] = &["Chain shift of the plosives.", "Voiceless fricatives are voiced.", "see Ringe 2006: 105", "applies   twice", "Łatwe — non-ASCII text ü"];

pub fn gen_project(t: &mut Tape) -> Value {
    let nw = 2 + t.pick(6);
    let mut lines: Vec<(String, Option<String>)> = vec![]; let mut segs = vec![];
    for _ in 0..nw {
        let w = gen_word(t, WordProfile::PLAIN).text(); if let Ok(Ok(pw)) = api::parse_word(&w) { segs.extend(word_segs(&pw)); }
        let phrase = if t.chance(1, 8) { format!("{w} {}", gen_word(t, WordProfile::TINY).text()) } else { w };
        lines.push((phrase, if t.chance(1, 4) { Some(["gloss", "cf. Latin", "uncertain # really"][t.pick(3)].to_string()) } else { None }));
        if t.chance(1, 5) { lines.push((String::new(), if t.chance(1, 2) { Some("section".into()) } else { None })); }
    }
    while lines.last().map(|l| l.0.is_empty()).unwrap_or(false) { lines.pop(); }
    let ng = 1 + t.weighted(&[2, 4, 3, 1]);
    let mut groups = vec![]; let mut name_i = t.pick(NAMES.len());
    for _ in 0..ng {
        let nr = 1 + t.weighted(&[4, 3, 2]);
        let rules: Vec<String> = (0..nr).map(|_| if t.chance(1, 12) { ";; only a comment".to_string() } else { simple_rule(t, &segs) }).collect();
        let nd = t.weighted(&[3, 4, 2, 1]);
        // description lines; an empty line (also as the last one: a description that ends in a line break) must survive the conversions too
        let desc: Vec<String> = (0..nd).map(|i| if i > 0 && t.chance(1, 6) { String::new() } else { DESCS[t.pick(DESCS.len())].to_string() }).collect();
        // one group in eight is untitled (what `RuleGroup::from_rules` produces): it is written as a bare `@` line
        let name = if t.chance(1, 8) { String::new() } else { NAMES[name_i % NAMES.len()].to_string() };
        groups.push((name, rules, desc)); name_i += 1;
    }
    let (mut into, mut from) = if t.chance(1, 2) { let (i, _) = gen_deromanisers(t); let (f, _) = gen_romanisers(t, &segs); (i, f) } else { (vec![], vec![]) };
    // alias lines that begin with an escape (`@{acute}Я > a`, `\u{416} > ʃ`) and a word that uses them; romaniser outputs with escapes
    if t.chance(1, 3) {
        match t.pick(3) { 0 => { into.push("@{acute}Я > a".to_string()); lines.push(("p\u{301}Яt".to_string(), None)); }
                          1 => { into.insert(0, "\\u{416}, @{underdot}t > ʃ, ʈ".to_string()); lines.push(("Жa.\u{323}ta".to_string(), Some("escapes".into()))); }
                          _ => { from.push("a:[+stress] > +@{acute}".to_string()); from.push("ʃ > \\u{448}".to_string()); } }
    }
    json!({"groups": groups, "words": lines, "into": into, "from": from, "blank_between_rules": t.chance(1, 2)})
}

fn norm_json(v: &Value) -> Value {
    json!({"into": v.get("into").cloned().unwrap_or(json!([])), "from": v.get("from").cloned().unwrap_or(json!([])), "words": v["words"], "rules": v["rules"]})
}

impl Property for C19 {
    fn id(&self) -> &'static str { "C19" }
    fn rule(&self) -> String {
        "Generated projects written to a fresh directory: a .rsca file (1-4 titled groups, 1-3 indented rules each — tabs or spaces, blank lines between rules, comment-only rule lines — and 0-3 description lines), a .wsca file (words, phrases, trailing `# comments`, comment-only and blank lines) and in half of the cases an .alias file (deromanisers and romanisers over fresh strings). \
         The real `asca` binary (built from /repo's working tree, no hook feature) is run as a subprocess: (a) `asca run -r R -w W [-l A] -o OUT.wsca` and `asca run -j P.json [-o]`: OUT must contain exactly the library's result (asca::run called in the harness on the intended content, one entry per line incl. empty entries for blank/comment lines) joined by newlines; on a library Err nothing is written; exit status 0. \
         (b) `conv asca` on the files gives JSON equal to the intended project; `conv json` on that JSON followed by `conv asca` reproduces the same JSON (words, groups with name/rules/description, aliases). Timeouts (30 s) give exit 2, never a violation. \
         Non-trivial: ≥2 groups, a multi-line description or blank/comment line in the word file, and a rule that fires. Quick 4000 projects (~28000 process runs), thorough 40000.".into()
    }
    fn assumptions(&self) -> Vec<String> { vec!["well-formed domain: group names single trimmed lines not starting with # or @ (possibly empty); rule lines non-empty after trimming; description lines trimmed (an empty line is allowed after the first); the word file does not end in an empty entry; `#` does not occur inside words".into()] }
    fn workers(&self, _t: Tier) -> usize { 8 }
    fn explore(&self, ctx: &mut Ctx) {
        let n = ctx.tier.pick(4000, 40000);
        run_tape_batches(self, ctx, "projects", n, 400, &|t| Some(gen_project(t)));
    }
    fn check(&self, case: &Value) -> Outcome {
        let groups: Vec<(String, Vec<String>, Vec<String>)> = serde_json::from_value(case["groups"].clone()).unwrap_or_default();
        let lines: Vec<(String, Option<String>)> = serde_json::from_value(case["words"].clone()).unwrap_or_default();
        let into: Vec<String> = serde_json::from_value(case["into"].clone()).unwrap_or_default();
        let from: Vec<String> = serde_json::from_value(case["from"].clone()).unwrap_or_default();
        let has_alias = !into.is_empty() || !from.is_empty();
        let words: Vec<String> = lines.iter().map(|l| l.0.clone()).collect();
        let rgs = to_rulegroups(&groups);
        let dir = fresh_dir("c19", case);
        let cleanup = |o: Outcome| { let _ = std::fs::remove_dir_all(&dir); o };
        let w = |name: &str, content: String| std::fs::write(dir.join(name), content).is_ok();
        if !(w("r.rsca", rsca_text(&groups, case["blank_between_rules"].as_bool().unwrap_or(false))) && w("w.wsca", wsca_text(&lines))) { return cleanup(Outcome::skip("cannot write project files")) }
        if has_alias { let mut a = String::from("@into\n"); for l in &into { a.push_str(&format!("    {l}\n")); } a.push_str("# romanisation\n@from\n"); for l in &from { a.push_str(&format!("    {l}\n")); } w("a.alias", a); }
        let project = json!({"into": into, "from": from, "words": words, "rules": rgs.iter().map(|g| json!({"name": g.name, "rule": g.rule, "description": g.description})).collect::<Vec<_>>()});
        w("p.json", serde_json::to_string_pretty(&project).unwrap());
        let lib = match api::run(&rgs, &words, &into, &from) { Err(_) => return cleanup(Outcome::skip("library call did not return (C02's business)")), Ok(r) => r };
        let detail = |what: &str, extra: Value| json!({"what": what, "case": case, "extra": extra, "dir_listing": std::fs::read_dir(&dir).map(|d| d.filter_map(|e| e.ok()).map(|e| e.file_name().to_string_lossy().to_string()).collect::<Vec<_>>()).unwrap_or_default()});
        // (a) run with files and with json
        for (label, args) in [("files", { let mut a = vec!["run", "-r", "r.rsca", "-w", "w.wsca"]; if has_alias { a.extend(["-l", "a.alias"]); } a.extend(["-o", "out_files.wsca"]); a }), ("json", vec!["run", "-j", "p.json", "-o", "out_json.wsca"])] {
            let r = run_cli(&dir, &args);
            if r.timed_out { return cleanup(Outcome::skip("TIMEOUT running the binary")) }
            if r.signal { return cleanup(Outcome::fail(format!("run ({label}): the binary died from a signal"), detail("crash", json!(args)))) }
            let out = std::fs::read_to_string(dir.join(format!("out_{label}.wsca"))).ok();
            match (&lib, out) {
                (Ok(res), Some(txt)) => if txt != res.join("\n") { return cleanup(Outcome::fail(format!("run ({label}): output file differs from the library result"), detail("content", json!({"file": txt, "library": res})))) },
                (Ok(res), None) => return cleanup(Outcome::fail(format!("run ({label}): no output file although the library succeeds"), detail("missing output", json!({"library": res, "stdout": r.stdout, "exit": r.code})))),
                (Err(_), Some(txt)) => return cleanup(Outcome::fail(format!("run ({label}): an output file is written although the library returns an error"), detail("unexpected output", json!({"file": txt})))),
                (Err(_), None) => {}
            }
            if r.code != Some(0) { return cleanup(Outcome::fail(format!("run ({label}): exit status {:?}", r.code), detail("exit status", json!({"stdout": r.stdout})))) }
        }
        // (b) conversions
        let mut a = vec!["conv", "asca", "-w", "w.wsca", "-r", "r.rsca"]; if has_alias { a.extend(["-a", "a.alias"]); } a.extend(["-o", "conv1.json"]);
        let r = run_cli(&dir, &a);
        if r.timed_out { return cleanup(Outcome::skip("TIMEOUT running the binary")) }
        let j1: Option<Value> = std::fs::read_to_string(dir.join("conv1.json")).ok().and_then(|t| serde_json::from_str(&t).ok());
        let Some(j1) = j1 else { return cleanup(Outcome::fail("conv asca: no JSON written", detail("missing json", json!({"stdout": r.stdout, "exit": r.code})))) };
        if norm_json(&j1) != norm_json(&project) { return cleanup(Outcome::fail("conv asca: JSON differs from the project in the files", detail("json", json!({"got": j1, "expected": project})))) }
        let mut a = vec!["conv", "json", "-p", "conv1.json", "-w", "w2.wsca", "-r", "r2.rsca"]; a.extend(["-a", "a2.alias"]);
        let r = run_cli(&dir, &a);
        if r.timed_out { return cleanup(Outcome::skip("TIMEOUT running the binary")) }
        if r.code != Some(0) || !dir.join("r2.rsca").exists() || !dir.join("w2.wsca").exists() { return cleanup(Outcome::fail("conv json: rule or word file not written", detail("conv json", json!({"stdout": r.stdout, "exit": r.code})))) }
        let mut a = vec!["conv", "asca", "-w", "w2.wsca", "-r", "r2.rsca"]; if dir.join("a2.alias").exists() { a.extend(["-a", "a2.alias"]); } a.extend(["-o", "conv2.json"]);
        let r = run_cli(&dir, &a);
        if r.timed_out { return cleanup(Outcome::skip("TIMEOUT running the binary")) }
        let j2: Option<Value> = std::fs::read_to_string(dir.join("conv2.json")).ok().and_then(|t| serde_json::from_str(&t).ok());
        let Some(j2) = j2 else { return cleanup(Outcome::fail("conv asca (second pass): no JSON written", detail("missing json", json!({"stdout": r.stdout, "exit": r.code})))) };
        if norm_json(&j2) != norm_json(&j1) { return cleanup(Outcome::fail("json -> rsca/wsca/alias -> json is not the identity", detail("round trip", json!({"first": j1, "second": j2, "r2": std::fs::read_to_string(dir.join("r2.rsca")).unwrap_or_default()})))) }
        let fired = match (&lib, api::run(&[], &words, &into, &from)) { (Ok(a), Ok(Ok(b))) => *a != b, _ => false };
        let nt = groups.len() >= 2 && fired && (groups.iter().any(|g| g.2.len() >= 2) || lines.iter().any(|l| l.0.is_empty() || l.1.is_some()));
        cleanup(if nt { Outcome::pass_nt(hash64(&case.to_string())) } else { Outcome::pass() })
    }
}
