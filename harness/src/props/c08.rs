//! C08 — every output word is well formed (structural invariants after every rule group).

use crate::api;
use crate::core::*;
use crate::gen::*;
use crate::model::*;
use crate::props::c02::{case_groups, strs};
use serde_json::{json, Value};

pub struct C08;

pub fn invariant_violation(w: &asca::verif::Word) -> Option<String> {
    if w.syllables.is_empty() { return Some("word has no syllable".into()) }
    for (i, s) in w.syllables.iter().enumerate() {
        if s.segments.is_empty() { return Some(format!("empty syllable ({})", if i + 1 == w.syllables.len() { "last" } else if i == 0 { "first" } else { "middle" })) }
        if s.tone >= 10_000 { return Some("tone has more than four digits".into()) }
        if s.tone.to_string().contains('0') && s.tone != 0 { return Some("tone contains a zero digit".into()) }
        for g in s.segments.iter() {
            if g.root > 7 { return Some("stray bits in root".into()) }
            if g.laryngeal > 7 { return Some("stray bits in laryngeal".into()) }
            match *g.place {
                Some(0) => return Some("place is Some(0) instead of None".into()),
                Some(p) => {
                    if p & 0x8000 == 0 && p & 0x0c00 != 0 { return Some("labial payload without labial node".into()) }
                    if p & 0x4000 == 0 && p & 0x0300 != 0 { return Some("coronal payload without coronal node".into()) }
                    if p & 0x2000 == 0 && p & 0x00fc != 0 { return Some("dorsal payload without dorsal node".into()) }
                    if p & 0x1000 == 0 && p & 0x0003 != 0 { return Some("pharyngeal payload without pharyngeal node".into()) }
                    if p & 0xf000 == 0 { return Some("place without any sub-node".into()) }
                }
                None => {}
            }
        }
    }
    None
}

/// attribution of an ill-formed result to the kinds of rule in the offending group (insertion rules and structure/variable outputs have listed findings)
pub fn group_tag(rules: &[String]) -> String {
    let kind = |r: &str| { let r = r.split(";;").next().unwrap_or(""); let (inp, rest) = r.split_once('>').unwrap_or((r, "")); let out = rest.split(['/', '|']).next().unwrap_or("").trim();
        if inp.trim().trim_end_matches(['=', '-']).trim() == "*" || inp.contains('∅') { "insertion" } else if out == "*" || out == "∅" { "deletion" } else if out == "&" { "metathesis" } else { "substitution" } };
    let mut kinds: Vec<&str> = rules.iter().map(|r| kind(r)).collect(); kinds.sort(); kinds.dedup();
    let out_of = |r: &str| -> String { let r = r.split(";;").next().unwrap_or(""); r.split_once('>').map(|x| x.1).unwrap_or("").split(['/', '|']).next().unwrap_or("").to_string() };
    let syll_out = rules.iter().any(|r| { let o = out_of(r); o.contains('<') || o.contains('⟨') || o.split_whitespace().any(|tk| tk.chars().next().map(|c| c.is_ascii_digit()).unwrap_or(false)) });
    if kinds.contains(&"insertion") { "a group with an insertion rule".to_string() } else if syll_out { "a group substituting a structure or a variable".to_string() } else { kinds.join("+") }
}

/// a rule biased to deletion / metathesis / boundary edits / tone merging
fn prosodic_rule(t: &mut Tape, segs: &[(String, MSeg)]) -> String {
    let x = |t: &mut Tape| if !segs.is_empty() && t.chance(3, 4) { segs[t.pick(segs.len())].0.clone() } else { ["C", "V", "[]", "O", "S"][t.pick(5)].to_string() };
    let env = |t: &mut Tape| match t.pick(8) { 0 => String::new(), 1 => format!(" / {} _", x(t)), 2 => format!(" / _ {}", x(t)), 3 => " / _ #".into(), 4 => " / # _".into(), 5 => format!(" / {} _ {}", x(t), x(t)), 6 => " / _ $".into(), _ => format!(" / $ _ {}", x(t)) };
    let tone = |t: &mut Tape| [5u16, 51, 214, 1234, 3, 12][t.pick(6)];
    match t.pick(20) {
        0 => format!("{} > *{}", x(t), env(t)),
        1 => format!("$ > *{}", env(t)),
        2 => format!("% > *{}", env(t)),
        3 => format!("${} > &{}", x(t), env(t)),
        4 => format!("{}$ > &{}", x(t), env(t)),
        5 => format!("%% > &{}", env(t)),
        6 => format!("{} ... {} > &", x(t), x(t)),
        7 => format!("{} > {}${}", x(t), x(t), env(t)),
        8 => format!("{} > {}%:[tone:{}]{}", x(t), x(t), tone(t), x(t)),
        9 => format!("* > $ / {} _ {}", x(t), x(t)),
        10 => format!("* > %:[tone:{}] / {} _ {}", tone(t), x(t), x(t)),
        11 => format!("% > [tone:{}]{}", tone(t), env(t)),
        12 => format!("{} $ {} > * {}", x(t), x(t), env(t)),
        13 => format!("{} {} > *{}", x(t), x(t), env(t)),
        14 => format!("% > <{} {}>{}", x(t).replace("[]", "a").replace(['C', 'O', 'S'], "t").replace('V', "a"), ["a", "i", "u"][t.pick(3)], env(t)),
        15 => format!("{} > <{}>{}", x(t), ["ta", "a", "an"][t.pick(3)], env(t)),
        16 => format!("{} > [-place]{}", x(t), env(t)),
        17 => format!("{} > [+{}, -{}]", x(t), ["lab", "cor", "dor", "phr"][t.pick(4)], ["lab", "cor", "dor", "phr"][t.pick(4)]),
        18 => format!("{}=1 > 1 1{}", ["C", "V", "[]"][t.pick(3)], env(t)),
        _ => format!("$ {} > * / _ #", x(t)),
    }
}

impl Property for C08 {
    fn id(&self) -> &'static str { "C08" }
    fn rule(&self) -> String {
        "Histories: 1-6 rule groups of 1-2 rules each, two thirds from a prosody-biased template generator (segment/boundary/syllable deletion, `$X > &`, `X$ > &`, `%% > &`, `X…Y > &`, boundary and syllable insertion, `X > X$`, `X > X%:[tone:n]Y`, \
         tone setting, structure substitution, node changes, reduplication), one third from the full-grammar generator, applied to a generated word with tones and stress (and to a one-segment word in 5% of cases). \
         After *every* group (structural hook apply_groups) the word must have ≥1 syllable, no empty syllable, tones < 10000 without zero digits, root ≤ 7, laryngeal ≤ 7, place ≠ Some(0), no payload bits of an absent sub-node, no place without sub-node. \
         Only histories whose call returns Ok are judged. Non-trivial: some group changed the number of syllables or a tone. Quick 1.5M, thorough 15M histories.".into()
    }
    fn explore(&self, ctx: &mut Ctx) {
        let n = ctx.tier.pick(1_500_000, 15_000_000);
        run_tape_batches(self, ctx, "histories", n, 500, &|t| {
            let word = if t.chance(1, 20) { pick_seg(t, 0).text.clone() } else { let p = if t.chance(1, 4) { WordProfile::RICH } else { WordProfile::PLAIN }; gen_word(t, p).text() };
            // tones typed with zero digits ("ma05", "ma1020"): zero means "no tone" and must not survive into the stored tone
            let word = if t.chance(1, 10) { format!("{word}{}", ["50", "105", "1020", "0", "007"][t.pick(5)]) } else { word };
            let segs = match api::parse_word(&word) { Ok(Ok(pw)) => word_segs(&pw), _ => return None };
            let ng = 1 + t.weighted(&[3, 3, 2, 2, 1, 1]);
            let mut groups = vec![];
            for _ in 0..ng {
                let nr = 1 + t.weighted(&[3, 1]);
                let mut rs = vec![];
                for _ in 0..nr { rs.push(if t.chance(2, 3) { prosodic_rule(t, &segs) } else { let mut g = RuleGen::new(RuleProfile::FULL, segs.clone()); rule_text(&g.rule(t)) }); }
                groups.push(rs);
            }
            Some(json!({"groups": groups, "words": [word]}))
        });
    }
    fn check(&self, case: &Value) -> Outcome {
        let groups = case_groups(case);
        let word = strs(&case["words"]).pop().unwrap_or_default();
        let w = match api::parse_word(&word) { Ok(Ok(w)) => w, _ => return Outcome::skip("word does not parse") };
        if w.syllables.is_empty() { return Outcome::skip("empty word") }
        if let Some(v) = invariant_violation(&w) { return Outcome::fail(format!("parsed input word: {v}"), json!({"word": word})) }
        match api::apply_groups(&groups, &w) {
            Err(_) => Outcome::skip("call did not return (C02's business)"),
            Ok(Err(e)) => Outcome::skip(&format!("Err:{}", api::err_variant(&e))),
            Ok(Ok(states)) => {
                let mut prev = MWord::from_asca(&w); let mut nt = false;
                for (i, s) in states.iter().enumerate() {
                    if let Some(v) = invariant_violation(s) {
                        let tag = group_tag(&strs(&case["groups"][i]));
                        return Outcome::fail(format!("{v} after {tag}"), json!({"groups": case["groups"], "word": word, "after_group": i, "state": MWord::from_asca(s).show(), "before": prev.show()}))
                    }
                    let m = MWord::from_asca(s);
                    if m.sylls.len() != prev.sylls.len() || m.sylls.iter().map(|x| x.tone).collect::<Vec<_>>() != prev.sylls.iter().map(|x| x.tone).collect::<Vec<_>>() { nt = true; }
                    prev = m;
                }
                if nt { Outcome::pass_nt(hash64(&case.to_string())) } else { Outcome::pass() }
            }
        }
    }
}
