//! C09 — ASCA can read back what it writes: parse(render(w)) == w unless the rendering contains �.

use crate::api;
use crate::core::*;
use crate::gen::*;
use crate::model::*;
use serde_json::{json, Value};

pub struct C09;

fn bundle_sig(s: &MSeg) -> String { format!("bundle:{},{},{},{:?},{:?},{:?},{:?}", s.root, s.manner, s.lar, s.lab, s.cor, s.dor, s.phr).replace("Some(", "").replace(')', "").replace("None", "-") }

/// round trip of a structural word; returns Outcome
pub fn roundtrip(w: &MWord, origin: &Value) -> Outcome {
    let aw = w.to_asca();
    let text = match api::render_word(&aw) { Ok(Ok(t)) => t, Ok(Err(e)) => return Outcome::fail("render returned Err", json!({"origin": origin, "err": format!("{e:?}")})), Err(a) => return Outcome::fail(format!("render|{}", a.signature()), json!({"origin": origin})) };
    if text.contains('�') { return Outcome::skip("rendering contains the replacement character") }
    let back = match api::parse_word(&text) {
        Ok(Ok(b)) => MWord::from_asca(&b),
        Ok(Err(e)) => {
            let bad = first_bad_bundle(w);
            // every segment reads back on its own: the concatenated text was segmented differently; a click letter after another segment is the listed cause
            let click_after_seg = w.sylls.iter().any(|s| s.segs.windows(2).any(|p| p[1].manner & 1 != 0 && p[0] != p[1]));
            let sig = match bad { Some(b) => bundle_sig(&b), None => if click_after_seg { "word|resegmentation around a click letter".to_string() } else { "word does not re-parse".to_string() } };
            return Outcome::fail(sig, json!({"origin": origin, "word": w.show(), "rendered": text, "reparse_error": format!("{e:?}")}))
        }
        Err(a) => return Outcome::fail(format!("parse|{}", a.signature()), json!({"origin": origin, "rendered": text})),
    };
    if &back != w {
        let bad = first_bad_bundle(w);
        let sig = match bad { Some(b) => bundle_sig(&b), None => word_level_sig(w, &back) };
        return Outcome::fail(sig, json!({"origin": origin, "word": w.show(), "rendered": text, "reparsed": back.show(), "word_json": w.to_json(), "reparsed_json": back.to_json()}));
    }
    // black-box corollary: the text is a fixed point of the empty rule list
    match api::run(&[], &[text.clone()], &[], &[]) {
        Ok(Ok(v)) if v.len() == 1 && v[0] == text => {}
        other => return Outcome::fail("rendered text is not a fixed point of run([])", json!({"origin": origin, "rendered": text, "run": format!("{other:?}")})),
    }
    let nt = w.nsegs() > 0 && (w.flat().iter().any(|s| !tables().by_value.contains_key(s)) || (w.sylls.len() >= 2 && w.sylls.iter().any(|s| s.stress != 0 || s.tone != 0)));
    if nt { Outcome::pass_nt(hash64(w)) } else { Outcome::pass() }
}

/// classifies a mismatch of a word all of whose segments round-trip individually
fn word_level_sig(w: &MWord, back: &MWord) -> String {
    if w.sylls.len() != back.sylls.len() { return "word|syllable count differs".into() }
    if w.sylls.iter().zip(&back.sylls).any(|(a, b)| a.stress != b.stress) { return "word|stress differs".into() }
    if w.sylls.iter().zip(&back.sylls).any(|(a, b)| a.tone != b.tone) { return "word|tone differs".into() }
    let (a, b) = (w.flat(), back.flat());
    let i = a.iter().zip(&b).position(|(x, y)| x != y).unwrap_or(a.len().min(b.len()));
    let click = |s: Option<&MSeg>| s.map(|s| s.manner & 1 != 0).unwrap_or(false);
    if a.len() != b.len() || click(b.get(i)) != click(a.get(i)) {
        // two adjacent graphemes were read back as a different segmentation
        if click(b.get(i)) || click(a.get(i)) || click(a.get(i + 1)) { return "word|resegmentation around a click letter".into() }
        return "word|resegmentation".into()
    }
    "word|segment values differ although each segment round-trips alone".into()
}

/// the first segment of the word that does not round-trip on its own (attribution of a word-level failure to a bundle)
fn first_bad_bundle(w: &MWord) -> Option<MSeg> {
    for s in w.flat() {
        let single = MWord { sylls: vec![MSyll { segs: vec![s], stress: 0, tone: 0 }] };
        let Ok(Ok(t)) = api::render_word(&single.to_asca()) else { return Some(s) };
        if t.contains('�') { continue }
        match api::parse_word(&t) { Ok(Ok(b)) if MWord::from_asca(&b) == single => {}, _ => return Some(s) }
    }
    None
}

fn single(s: MSeg) -> MWord { MWord { sylls: vec![MSyll { segs: vec![s], stress: 0, tone: 0 }] } }

impl Property for C09 {
    fn id(&self) -> &'static str { "C09" }
    fn rule(&self) -> String {
        "(a) every text base+d1(+d2) over the 365 bases and 32 diacritics that asca parses (all ~375k texts, both tiers): parse, render, re-parse, compare structurally; \
         (b) every bundle obtained from base(+≤1 diacritic) by one feature flip / sub-node removal / sub-node creation, built structurally (all, both tiers); \
         (d) generated rule lists (1-3 full-grammar rules, no insertion) applied to generated words: the printed output must be a fixed point of the empty rule list (quick 400k, thorough 5M); (c) random words (1-4 syllables, lengths 1-3, both stresses, tones, segments from (a)/(b) pools) from the tape generator (quick 500k, thorough 6M). \
         Oracle: if render(w) has no �, parse(render(w)) == w (bundles per syllable, stress, tone) and run([], [text]) == [text]. \
         Non-trivial: the word contains a bundle that is not an exact base (needs diacritic composition), or has ≥2 syllables with stress or tone. Distinct = hash of the structural word.".into()
    }
    fn assumptions(&self) -> Vec<String> { vec!["structural access goes through the verif hook (parse_word / render_word / word_from_parts), which wrap Word::new and Word::render unchanged".into()] }
    fn explore(&self, ctx: &mut Ctx) {
        let t = tables();
        let p = pool();
                let mut idx = 0usize;
        let mut mine = |ctx: &Ctx| { idx += 1; idx % ctx.nshards == ctx.shard };
        // (a) texts
        for b in &p.bases { if mine(ctx) { run_case(self, ctx, json!({"kind": "text", "text": b.text})); } }
        for d in &p.dia1 { if mine(ctx) { run_case(self, ctx, json!({"kind": "text", "text": d.text})); } }
        let mut k = 0usize;
        for d in &p.dia1 {
            for d2 in &t.dias {
                k += 1;
                if !mine(ctx) { continue }
                let mut text = d.text.clone(); text.push(d2.ch);
                run_case(self, ctx, json!({"kind": "text", "text": text}));
            }
        }
        // (b) single-feature changes of base(+1 diacritic), structurally
        let mut k = 0usize;
        for ps in p.bases.iter().chain(p.dia1.iter()) {
            let mut variants: Vec<MSeg> = vec![];
            for f in 0..26 { let mut s = ps.seg; match s.feat(f) { Some(v) => s.set_feat(f, !v), None => s.set_feat(f, true) }; variants.push(s); }
            for (_, n) in SUBNODES { let mut s = ps.seg; if s.node(n).is_some() { s.set_node(n, None) } else { s.set_node(n, Some(0)) }; variants.push(s); }
            for v in variants {
                k += 1;
                if !mine(ctx) { continue }
                run_case(self, ctx, json!({"kind": "bundle", "seg": v.to_json(), "from": ps.text}));
            }
        }
        // (d) outputs of generated runs (segmental and suprasegmental rules) must be fixed points of the empty rule list
        let n = ctx.tier.pick(400_000, 5_000_000);
        run_tape_batches(self, ctx, "runs", n, 400, &|t| {
            let wp = if t.chance(1, 3) { WordProfile::RICH } else { WordProfile::PLAIN };
            let word = gen_word(t, wp).text();
            let segs = match api::parse_word(&word) { Ok(Ok(pw)) => word_segs(&pw), _ => return None };
            let nr = 1 + t.weighted(&[5, 3, 1]);
            let rules: Vec<String> = (0..nr).map(|_| { let mut g = RuleGen::new(RuleProfile { insertion: false, ..RuleProfile::FULL }, segs.clone()); rule_text(&g.rule(t)) }).collect();
            Some(json!({"kind": "run", "text": word, "rules": rules}))
        });
        // (c) random words
        let n = ctx.tier.pick(500_000, 6_000_000);
        run_tape_batches(self, ctx, "words", n, 120, &|t| {
            let w = gen_word(t, WordProfile { max_sylls: 4, max_segs: 4, supra: true, rich: 70, long: true });
            Some(json!({"kind": "word", "text": w.text()}))
        });
    }
    fn check(&self, case: &Value) -> Outcome {
        if case["kind"] == "run" {
            // corollary: the output of any run is a fixed point of the empty rule list (unless it contains �)
            let rules = crate::props::c02::strs(&case["rules"]); let word = case["text"].as_str().unwrap_or("");
            let pw = match api::parse_word(word) { Ok(Ok(w)) => w, _ => return Outcome::skip("text is not a word asca accepts") };
            let res = match api::apply_rules(&rules, &pw) { Ok(Ok(r)) => r, Ok(Err(_)) => return Outcome::skip("the rules return Err"), Err(_) => return Outcome::skip("call did not return (C02's business)") };
            let out = match api::run(&api::groups(&rules), &[word.to_string()], &[], &[]) { Ok(Ok(v)) => v[0].clone(), _ => return Outcome::skip("the rules return Err") };
            if out.contains('�') { return Outcome::skip("rendering contains the replacement character") }
            let again = match api::run(&[], &[out.clone()], &[], &[]) { Ok(Ok(v)) => v[0].clone(), Ok(Err(e)) => format!("Err({})", api::err_variant(&e)), Err(_) => return Outcome::skip("call did not return (C02's business)") };
            if again != out {
                // attribute to a listed segment-level finding when the structural result has a segment that does not round-trip on its own
                let m = MWord::from_asca(&res);
                if let Outcome::Fail { signature, .. } = roundtrip(&m, case) { if signature.starts_with("bundle:") || signature.starts_with("word|resegmentation") { return Outcome::fail(if signature.starts_with("bundle:") && !crate::core::is_known("C09", &signature) { "run output with a segment (beyond base+2 diacritics) that does not read back".to_string() } else { signature }, json!({"rules": rules, "word": word, "output": out, "reread": again})) } }
                return Outcome::fail("run output is not a fixed point of the empty rule list", json!({"rules": rules, "word": word, "output": out, "reread": again, "structural_result": m.show()}))
            }
            let m = MWord::from_asca(&res);
            return if m != MWord::from_asca(&pw) { Outcome::pass_nt(hash64(&(rules, word))) } else { Outcome::pass() }
        }
        match case["kind"].as_str() {
            Some("bundle") => { let s = MSeg::from_json(&case["seg"]); roundtrip(&single(s), case) }
            _ => {
                let text = case["text"].as_str().unwrap_or("");
                match api::parse_word(text) {
                    Ok(Ok(w)) => { let mw = MWord::from_asca(&w); if mw.nsegs() == 0 { return Outcome::skip("empty word") } roundtrip(&mw, case) }
                    Ok(Err(_)) => Outcome::skip("text is not a word asca accepts"),
                    Err(a) => Outcome::fail(format!("parse|{}", a.signature()), json!({"text": text})),
                }
            }
        }
    }
}
