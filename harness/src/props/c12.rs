//! C12 — documented shorthands mean exactly their expansions.

use crate::api;
use crate::core::*;
use crate::gen::*;
use crate::model::*;
use crate::props::c02::strs;
use serde_json::{json, Value};

pub struct C12;

fn group_as_matrix(letter: char, params: &Option<Params>, var: Option<u32>) -> El {
    // the manual's table (doc.md §Groupings); explicit parameters override the group's own value of the same feature
    let mut args: Vec<(Sign, PName)> = group_def(letter).unwrap().into_iter().map(|(f, b)| (if b { Sign::Plus } else { Sign::Minus }, PName::Feat(f))).collect();
    let mut tone = None;
    if let Some(p) = params { for (s, n) in &p.args { args.retain(|(_, m)| m != n); args.push((*s, *n)); } tone = p.tone; }
    El::Matrix { params: Params { args, tone }, var }
}
fn map_el(e: &El, f: &dyn Fn(&El) -> Option<El>) -> El {
    if let Some(x) = f(e) { return x }
    match e {
        El::Set(xs) => El::Set(xs.iter().map(|x| map_el(x, f)).collect()),
        El::Struct { items, params, var } => El::Struct { items: items.iter().map(|x| map_el(x, f)).collect(), params: params.clone(), var: *var },
        El::Opt { items, min, max, form } => El::Opt { items: items.iter().map(|x| map_el(x, f)).collect(), min: *min, max: *max, form: *form },
        x => x.clone(),
    }
}
fn map_rule(r: &Rule, f: &dyn Fn(&El) -> Option<El>) -> Rule {
    let ms = |v: &Vec<El>| v.iter().map(|e| map_el(e, f)).collect::<Vec<_>>();
    let side = |s: &Side| match s { Side::Terms(ts) => Side::Terms(ts.iter().map(&ms).collect()), x => x.clone() };
    let env = |e: &Env| Env { before: ms(&e.before), after: ms(&e.after) };
    let spec = |s: &Option<EnvSpec>| s.as_ref().map(|s| match s { EnvSpec::Special(xs) => EnvSpec::Special(ms(xs)), EnvSpec::List(items) => EnvSpec::List(items.iter().map(|it| match it { EnvItem::One(e) => EnvItem::One(env(e)), EnvItem::Set(es) => EnvItem::Set(es.iter().map(&env).collect()) }).collect()) });
    Rule { input: side(&r.input), output: side(&r.output), context: spec(&r.context), except: spec(&r.except), comment: None }
}
fn has_group(r: &Rule) -> bool { let found = std::cell::Cell::new(false); let _ = map_rule(r, &|e| { if matches!(e, El::Group { .. }) { found.set(true) } None }); found.get() }

/// condensed rule -> its sub-rules as separate rules (singleton lists broadcast)
fn uncondense(r: &Rule) -> Option<Vec<Rule>> {
    let (Side::Terms(ins), outs) = (&r.input, &r.output) else { return None };
    let items = |s: &Option<EnvSpec>| -> Option<Vec<EnvItem>> { match s { None => Some(vec![]), Some(EnvSpec::List(v)) => Some(v.clone()), Some(EnvSpec::Special(_)) => None } };
    let (ctx, exc) = (items(&r.context)?, items(&r.except)?);
    let nout = match outs { Side::Terms(o) => o.len(), _ => 1 };
    let n = ins.len().max(nout).max(ctx.len()).max(exc.len());
    if n < 2 { return None }
    for l in [ins.len(), nout] { if l != n && l != 1 { return None } }
    for l in [ctx.len(), exc.len()] { if l != n && l > 1 { return None } }
    let mut rules = vec![];
    for i in 0..n {
        let pick = |l: usize| if l == 1 { 0 } else { i };
        let output = match outs { Side::Terms(o) => Side::Terms(vec![o[pick(o.len())].clone()]), x => x.clone() };
        let spec = |v: &Vec<EnvItem>| if v.is_empty() { None } else { Some(EnvSpec::List(vec![v[pick(v.len())].clone()])) };
        rules.push(Rule { input: Side::Terms(vec![ins[pick(ins.len())].clone()]), output, context: spec(&ctx), except: spec(&exc), comment: None });
    }
    Some(rules)
}

/// `(X,M:N)` in the single context environment -> environment set of the explicit repetitions
fn expand_optional(r: &Rule, word_len: usize) -> Option<Rule> {
    let Some(EnvSpec::List(items)) = &r.context else { return None };
    let [EnvItem::One(env)] = items.as_slice() else { return None };
    let opts: Vec<(bool, usize)> = env.before.iter().enumerate().filter(|(_, e)| matches!(e, El::Opt { .. })).map(|(i, _)| (true, i)).chain(env.after.iter().enumerate().filter(|(_, e)| matches!(e, El::Opt { .. })).map(|(i, _)| (false, i))).collect();
    let [(is_before, idx)] = opts.as_slice() else { return None };
    let side = if *is_before { &env.before } else { &env.after };
    let El::Opt { items: xs, min, max, .. } = &side[*idx] else { return None };
    let hi = if *max == 0 { word_len as u32 + 2 } else { *max };
    let mut envs = vec![];
    for k in *min..=hi {
        let mut s: Vec<El> = side[..*idx].to_vec();
        for _ in 0..k { s.extend(xs.iter().cloned()); }
        s.extend(side[*idx + 1..].iter().cloned());
        envs.push(if *is_before { Env { before: s, after: env.after.clone() } } else { Env { before: env.before.clone(), after: s } });
    }
    // an environment `_` with nothing around it cannot be written inside a set next to others: keep it (it is legal as `_`)
    Some(Rule { context: Some(EnvSpec::List(vec![if envs.len() == 1 { EnvItem::One(envs.pop().unwrap()) } else { EnvItem::Set(envs) }])), ..r.clone() })
}

fn texts(rs: &[Rule]) -> Vec<String> { rs.iter().map(rule_text).collect() }

impl Property for C12 {
    fn id(&self) -> &'static str { "C12" }
    fn rule(&self) -> String {
        "Pairs (shorthand rule list, expansion) produced mechanically on the generator's AST and applied to the same generated word: (1) condensed rule (2-3 comma-separated inputs/outputs/environments, singleton lists broadcast) ↔ its sub-rules as separate rule lines; \
         (2) `_,X` ↔ `X_ , _X` with X mirrored; (3) every group letter in any position ↔ the matrix of the manual's Groupings table (explicit parameters override), plus the exhaustive slice `G > [tone:7]` vs `[matrix] > [tone:7]` over all 9 letters × every base and base+1 diacritic; \
         (4) one optional `(X,M:N)` / `(X)` / `(X,N)` / `(X,0)` in the context ↔ the environment set of its M..N explicit repetitions (`(X,0)`: 0..|word|+2); (5) `A B > &` ↔ `A=1 B=2 > 2 1` for matrices/groups A, B with arbitrary environments. \
         Oracle: both sides return Err, or both return Ok with structurally equal words. Non-trivial: the shorthand side changed the word. Quick 1.2M pairs, thorough 15M.".into()
    }
    fn explore(&self, ctx: &mut Ctx) {
        // exhaustive slice for (3)
        let p = pool(); let mut idx = 0usize;
        for ps in p.bases.iter().chain(p.dia1.iter()) { idx += 1; if idx % ctx.nshards != ctx.shard { continue }
            let a: Vec<String> = GROUPS.iter().map(|g| format!("{g} > [tone:7]")).collect();
            let b: Vec<String> = GROUPS.iter().map(|g| rule_text(&Rule { input: Side::Terms(vec![vec![group_as_matrix(*g, &None, None)]]), output: Side::Terms(vec![vec![El::Matrix { params: Params { args: vec![], tone: Some(7) }, var: None }]]), context: None, except: None, comment: None })).collect();
            run_case(self, ctx, json!({"kind": "group-slice", "word": ps.text, "a": a, "b": b}));
        }
        let n = ctx.tier.pick(1_200_000, 15_000_000);
        run_tape_batches(self, ctx, "pairs", n, 500, &|t| {
            let wp = if t.chance(1, 4) { WordProfile::RICH } else { WordProfile::PLAIN };
            let gw = gen_word(t, wp); let word = gw.text();
            let Ok(Ok(pw)) = api::parse_word(&word) else { return None };
            let segs = word_segs(&pw); let wlen = MWord::from_asca(&pw).nsegs() + pw.syllables.len();
            let kind = t.pick(5);
            let base = RuleProfile { insertion: false, ..RuleProfile::FULL };
            match kind {
                0 => { // condensed
                    let mut g = RuleGen::new(RuleProfile { env_sets: true, ..base }, segs);
                    for _ in 0..6 { let r = g.rule(t); if let Some(parts) = uncondense(&r) { if matches!(r.context, Some(EnvSpec::Special(_))) { continue } return Some(json!({"kind": "condensed", "word": word, "a": [rule_text(&r)], "b": texts(&parts)})) } }
                    None
                }
                1 => { // special environment
                    let mut g = RuleGen::new(RuleProfile { condensed: false, ..base }, segs);
                    let mut r = g.rule(t);
                    g.prof.variables = false; g.prof.ellipsis = false; g.prof.optionals = t.chance(1, 4);
                    let k = 1 + t.pick(2); let mut xs = vec![]; if t.chance(1, 3) { xs.push(El::WBound); } for _ in 0..k { xs.push(g.env_el(t)); }
                    r.context = Some(EnvSpec::Special(xs.clone()));
                    let mut mirrored = xs.clone(); mirrored.reverse();
                    let mut r2 = r.clone(); r2.context = Some(EnvSpec::List(vec![EnvItem::One(Env { before: xs, after: vec![] }), EnvItem::One(Env { before: vec![], after: mirrored })]));
                    Some(json!({"kind": "special-env", "word": word, "a": [rule_text(&r)], "b": [rule_text(&r2)]}))
                }
                2 => { // groups
                    let mut g = RuleGen::new(base, segs);
                    for _ in 0..6 { let r = g.rule(t); if has_group(&r) { let r2 = map_rule(&r, &|e| match e { El::Group { letter, params, var } => Some(group_as_matrix(*letter, params, *var)), _ => None }); return Some(json!({"kind": "group", "word": word, "a": [rule_text(&r)], "b": [rule_text(&r2)]})) } }
                    None
                }
                3 => { // optional
                    let mut g = RuleGen::new(RuleProfile { condensed: false, env_sets: false, optionals: false, ..base }, segs);
                    let mut r = g.rule(t);
                    g.prof.variables = false; g.prof.alphas = false;
                    let mut env = Env::default();
                    let nb = t.pick(3); let na = t.pick(3);
                    for _ in 0..nb { let x = g.env_el(t); env.before.push(x); } for _ in 0..na { let x = g.env_el(t); env.after.push(x); }
                    let k = 1 + t.weighted(&[5, 1]); let mut items = vec![]; for _ in 0..k { items.push(if t.chance(1, 10) { El::SBound } else { g.seg_el(t, Where::Context) }); }
                    let (min, max, form) = match t.weighted(&[3, 3, 2, 2]) { 0 => (0, 1, 0), 1 => (0, 0, 1), 2 => (0, 1 + t.pick(3) as u32, 1), _ => { let a = t.pick(3) as u32; (a, a + 1 + t.pick(2) as u32, 2) } };
                    let opt = El::Opt { items, min, max, form };
                    if t.chance(1, 2) { let i = t.pick(env.before.len() + 1); env.before.insert(i, opt) } else { let i = t.pick(env.after.len() + 1); env.after.insert(i, opt) }
                    r.context = Some(EnvSpec::List(vec![EnvItem::One(env)]));
                    let r2 = expand_optional(&r, wlen)?;
                    Some(json!({"kind": "optional", "word": word, "a": [rule_text(&r)], "b": [rule_text(&r2)]}))
                }
                _ => { // metathesis of two matrices/groups
                    let mut g = RuleGen::new(RuleProfile { variables: false, condensed: false, ..base }, segs);
                    let mk = |g: &mut RuleGen, t: &mut Tape| loop { match g.seg_el(t, Where::Input) { e @ (El::Matrix { .. } | El::Group { .. }) => break e, _ => continue } };
                    let (a, b) = (mk(&mut g, t), mk(&mut g, t));
                    let with_var = |e: &El, n: u32| match e { El::Matrix { params, .. } => El::Matrix { params: params.clone(), var: Some(n) }, El::Group { letter, params, .. } => El::Group { letter: *letter, params: params.clone(), var: Some(n) }, x => x.clone() };
                    let context = if t.chance(2, 3) { Some(g.env_spec(t, 1, false)) } else { None };
                    let except = if t.chance(1, 5) { Some(g.env_spec(t, 1, false)) } else { None };
                    let r = Rule { input: Side::Terms(vec![vec![a.clone(), b.clone()]]), output: Side::Amp, context: context.clone(), except: except.clone(), comment: None };
                    let r2 = Rule { input: Side::Terms(vec![vec![with_var(&a, 1), with_var(&b, 2)]]), output: Side::Terms(vec![vec![El::Var { n: 2, params: None }, El::Var { n: 1, params: None }]]), context, except, comment: None };
                    Some(json!({"kind": "metathesis", "word": word, "a": [rule_text(&r)], "b": [rule_text(&r2)]}))
                }
            }
        });
    }
    fn check(&self, case: &Value) -> Outcome {
        let word = case["word"].as_str().unwrap_or(""); let kind = case["kind"].as_str().unwrap_or("?");
        let w = match api::parse_word(word) { Ok(Ok(w)) => w, _ => return Outcome::skip("word does not parse") };
        let mw = MWord::from_asca(&w);
        let (a, b) = (strs(&case["a"]), strs(&case["b"]));
        if kind == "group-slice" {
            for (ra, rb) in a.iter().zip(&b) {
                let (x, y) = (api::apply_rules(&[ra.clone()], &w), api::apply_rules(&[rb.clone()], &w));
                match (x, y) { (Ok(Ok(x)), Ok(Ok(y))) => if MWord::from_asca(&x) != MWord::from_asca(&y) { return Outcome::fail(format!("group letter {} differs from the manual's matrix", &ra[..1]), json!({"word": word, "shorthand": ra, "expansion": rb, "shorthand_result": MWord::from_asca(&x).show(), "expansion_result": MWord::from_asca(&y).show()})) },
                               (x, y) => return Outcome::fail("group slice: a call failed", json!({"word": word, "shorthand": ra, "x": format!("{:?}", x.map(|r| r.is_ok())), "y": format!("{:?}", y.map(|r| r.is_ok()))})) }
            }
            return Outcome::pass_nt(hash64(&word))
        }
        let (x, y) = (api::apply_rules(&a, &w), api::apply_rules(&b, &w));
        let (x, y) = match (x, y) { (Ok(x), Ok(y)) => (x, y), _ => return Outcome::skip("a call did not return (C02's business)") };
        match (x, y) {
            (Err(_), Err(_)) => Outcome::skip("both sides return Err"),
            (Ok(x), Ok(y)) => { let (x, y) = (MWord::from_asca(&x), MWord::from_asca(&y));
                let long = mw.sylls.iter().any(|s| s.segs.windows(2).any(|p| p[0] == p[1]));
                if x != y { return Outcome::fail(format!("{kind}: shorthand and expansion give different words{}", if long && kind == "metathesis" { " (word with a long segment)" } else { "" }), json!({"word": word, "shorthand": a, "expansion": b, "shorthand_result": x.show(), "expansion_result": y.show()})) }
                let o = if x != mw { Outcome::pass_nt(hash64(&(&a, word))) } else { Outcome::pass() }; o.with_class(format!("kind:{kind}")) }
            (x, y) => Outcome::fail(format!("{kind}: one side is an error, the other is not"), json!({"word": word, "shorthand": a, "expansion": b, "shorthand_result": format!("{:?}", x.map(|w| MWord::from_asca(&w).show())), "expansion_result": format!("{:?}", y.map(|w| MWord::from_asca(&w).show()))})),
        }
    }
}
