//! C05 — stress, length and tone modifiers follow the manual's three-way tables (exhaustive against a table model).

use crate::api;
use crate::core::*;
use crate::model::*;
use serde_json::{json, Value};

pub struct C05;

#[derive(Clone, Copy, PartialEq, Eq, Debug)]
struct St { len: u8, stress: u8, tone: u16 } // stress: 0 none, 1 primary, 2 secondary

/// a modifier combination: each of long/overlong/stress/secstress is None/+/- ; tone None or Some
#[derive(Clone, Copy, Debug)]
struct Mods { long: Option<bool>, over: Option<bool>, stress: Option<bool>, sec: Option<bool>, tone: Option<u16> }

const TONES: [u16; 4] = [0, 5, 51, 1234];

fn mods_text(m: &Mods, with_length: bool) -> String {
    let mut v = vec![];
    let pm = |b: bool| if b { "+" } else { "-" };
    if with_length { if let Some(b) = m.long { v.push(format!("{}long", pm(b))) } if let Some(b) = m.over { v.push(format!("{}overlong", pm(b))) } }
    if let Some(b) = m.stress { v.push(format!("{}stress", pm(b))) }
    if let Some(b) = m.sec { v.push(format!("{}secstress", pm(b))) }
    if let Some(t) = m.tone { v.push(format!("tone:{t}")) }
    v.join(",")
}

/// does the state match the modifiers (manual §Suprasegmental Features)
fn matches(s: &St, m: &Mods) -> bool {
    if let Some(b) = m.long { if b != (s.len >= 2) { return false } }
    if let Some(b) = m.over { if b != (s.len >= 3) { return false } }
    if let Some(b) = m.stress { if b != (s.stress != 0) { return false } }
    if let Some(b) = m.sec { if b != (s.stress == 2) { return false } }
    if let Some(t) = m.tone { if t != s.tone { return false } }
    true
}
fn contradictory(m: &Mods) -> bool { (m.over == Some(true) && m.long == Some(false)) || (m.stress == Some(false) && m.sec == Some(true)) }

/// set of acceptable result states after setting the modifiers (None = must be an error)
fn set_states(s: &St, m: &Mods) -> Option<Vec<St>> {
    if contradictory(m) { return None }
    let len = match (m.long, m.over) {
        (None, None) => s.len,
        (Some(true), None) => s.len.max(2),
        (Some(false), None) => 1,
        (None, Some(true)) => 3,
        (None, Some(false)) => s.len.min(2),
        (Some(true), Some(true)) => 3,
        (Some(true), Some(false)) => 2,
        (Some(false), Some(false)) => 1,
        (Some(false), Some(true)) => unreachable!(),
    };
    let stresses: Vec<u8> = match (m.stress, m.sec) {
        (None, None) => vec![s.stress],
        (Some(true), None) => vec![1],        // "`[+stress]` alone gives primary stress" (also on a syllable that carries secondary stress)
        (Some(false), None) => vec![0],
        (None, Some(true)) => vec![2],
        (None, Some(false)) => if s.stress == 2 { vec![0, 1] } else { vec![s.stress] },        // the manual leaves the choice open for a secondary-stressed syllable
        (Some(true), Some(true)) => vec![2],
        (Some(true), Some(false)) => vec![1],
        (Some(false), Some(false)) => vec![0],
        (Some(false), Some(true)) => unreachable!(),
    };
    let tone = m.tone.unwrap_or(s.tone);
    Some(stresses.into_iter().map(|st| St { len, stress: st, tone }).collect())
}

fn all_mods() -> Vec<Mods> {
    let tri = [None, Some(true), Some(false)];
    let mut v = vec![];
    for l in tri { for o in tri { for s in tri { for c in tri { for t in [None, Some(0u16), Some(5), Some(51), Some(1234)] {
        v.push(Mods { long: l, over: o, stress: s, sec: c, tone: t });
    } } } } }
    v
}

/// word text with the target vowel `a` of state `s` at position first/middle/last of the middle syllable
fn word_text(s: &St, posn: usize) -> String {
    let a = format!("a{}", "ː".repeat(s.len as usize - 1));
    let body = match posn { 0 => format!("{a}p"), 1 => format!("p{a}p"), _ => format!("p{a}") };
    let mark = match s.stress { 1 => "ˈ", 2 => "ˌ", _ => "." };
    format!("ti{mark}{body}{}.ku", if s.tone != 0 { s.tone.to_string() } else { String::new() })
}

fn state_of(w: &MWord, seg_is: impl Fn(&MSeg) -> bool) -> Option<St> {
    let sy = w.sylls.get(1)?;
    let len = sy.segs.iter().filter(|s| seg_is(s)).count() as u8;
    Some(St { len, stress: sy.stress, tone: sy.tone })
}

const KINDS: [&str; 13] = ["out-two", "in-ipa", "in-group", "in-matrix", "in-syll", "out-seg", "out-seg-matrix-in", "out-seg-feat", "out-syll", "ctx-syll-after", "ctx-syll-before", "ctx-seg-after", "ctx-seg-before"];

impl C05 {
    /// two targets next to each other in one syllable (`a` in the state under test, then `e` short / long / overlong, or the other way round): `V:[-high] > [M]`
    /// must leave each of them in a state the table allows — a length change of the first must not displace the second
    fn check_two(&self, s: &St, posn: usize) -> Outcome {
        let t = tables(); let (a, e) = (t.by_name["a"], t.by_name["e"]);
        let mut nontrivial = false;
        for len2 in 1..=3u8 { for a_first in [true, false] {
            let rep = |g: &str, n: u8| format!("{g}{}", "ː".repeat(n as usize - 1));
            let pair = if a_first { format!("{}{}", rep("a", s.len), rep("e", len2)) } else { format!("{}{}", rep("e", len2), rep("a", s.len)) };
            let body = match posn { 0 => format!("{pair}p"), 1 => format!("p{pair}p"), _ => format!("p{pair}") };
            let mark = match s.stress { 1 => "ˈ", 2 => "ˌ", _ => "." };
            let text = format!("ti{mark}{body}{}.ku", if s.tone != 0 { s.tone.to_string() } else { String::new() });
            let Ok(Ok(w)) = api::parse_word(&text) else { return Outcome::fail("out-two|word does not parse", json!({"word": text})) };
            let mw = MWord::from_asca(&w);
            for m in all_mods() {
                let mt = mods_text(&m, true);
                if mt.is_empty() { continue }
                let rule = format!("V:[-high] > [{mt}]");
                let cell = |what: &str| format!("out-two|{what}|long={:?},over={:?},stress={:?},sec={:?},tone={}|len{}+{len2}{}", m.long, m.over, m.stress, m.sec, m.tone.is_some(), s.len, if a_first { "" } else { " reversed" }).replace("Some(true)", "+").replace("Some(false)", "-").replace("None", "0");
                let (ea, ee) = (set_states(s, &m), set_states(&St { len: len2, ..*s }, &m));
                match api::apply_rules(&[rule.clone()], &w) {
                    Err(ab) => return Outcome::fail(format!("{}|{}", cell("abnormal"), ab.signature()), json!({"rule": rule, "word": text})),
                    Ok(Err(err)) => if ea.is_some() { return Outcome::fail(cell("unexpected error"), json!({"rule": rule, "word": text, "error": format!("{err:?}")})) },
                    Ok(Ok(g)) => {
                        let g = MWord::from_asca(&g);
                        let (Some(ea), Some(ee)) = (ea, ee) else { return Outcome::fail(cell("contradictory output accepted"), json!({"rule": rule, "word": text, "got": g.show()})) };
                        let Some(sy) = g.sylls.get(1) else { return Outcome::fail(cell("wrong resulting state"), json!({"rule": rule, "word": text, "got": g.show()})) };
                        let (na, ne) = (sy.segs.iter().filter(|x| **x == a).count() as u8, sy.segs.iter().filter(|x| **x == e).count() as u8);
                        let vow: Vec<&MSeg> = sy.segs.iter().filter(|x| **x == a || **x == e).collect();
                        let ordered = if a_first { vow.iter().position(|x| **x == e).map(|i| vow[i..].iter().all(|x| **x == e)).unwrap_or(true) } else { vow.iter().position(|x| **x == a).map(|i| vow[i..].iter().all(|x| **x == a)).unwrap_or(true) };
                        let frame_ok = g.sylls.len() == 3 && g.sylls[0] == mw.sylls[0] && g.sylls[2] == mw.sylls[2] && sy.segs.iter().filter(|x| **x != a && **x != e).count() == mw.sylls[1].segs.iter().filter(|x| **x != a && **x != e).count();
                        let ok = frame_ok && ordered && ea.iter().any(|st| st.len == na && st.stress == sy.stress && st.tone == sy.tone) && ee.iter().any(|st| st.len == ne && st.stress == sy.stress && st.tone == sy.tone);
                        if !ok { return Outcome::fail(cell("wrong resulting state"), json!({"rule": rule, "word": text, "expected_a": format!("{ea:?}"), "expected_e": format!("{ee:?}"), "got": g.show()})) }
                        if g != mw { nontrivial = true; }
                    }
                }
            }
        } }
        if nontrivial { Outcome::pass_nt(hash64(&(s.len, s.stress, s.tone, posn))) } else { Outcome::pass() }
    }
}

impl Property for C05 {
    fn id(&self) -> &'static str { "C05" }
    fn rule(&self) -> String {
        "Exhaustive: 36 states of a target vowel/syllable (length 1-3 × unstressed/primary/secondary × tone 0/5/51/1234) × 405 modifier combinations ({absent,+,-} over long, overlong, stress, sec.stress × tone absent or one of four values) \
         × 13 element kinds (input modifier on IPA `a:[M]`, group `V:[+low,M]`, matrix `[+syll,M]`, syllable `%:[M]`; output matrix on a segment `a > [M]`, `[+syll] > [M]` and, together with a feature change, `a > [+nasal,M]` (every copy must be changed); output matrix on `%`; `V:[-high] > [M]` on two adjacent targets of one syllable (`a` in the state under test next to a short / long / overlong `e`, both orders); the same modifiers on an element of the environment: `_%:[M]`, `%:[M]_`, `_a:[M]`, `[+syll,+low,M]_`, with the neighbouring segment as focus) × target first/middle/last in its syllable (word `ti.<syll>.ku`). \
         Match outcome (marker `[+nasal]` resp. `[tone:7]`) and resulting state are compared with a table model typed from the manual; where the manual leaves a choice (`[-sec.stress]` on a secondary-stressed syllable) every documented-consistent result is accepted; \
         contradictory combinations must be errors in outputs and must be errors or never match in inputs; length on `%` must be rejected. One case = (state, kind, position) = 405 cells. Non-trivial: the model predicts a state change or a failed match for some cell. Both tiers enumerate the whole space.".into()
    }
    fn exhaustive(&self, _t: Tier) -> bool { true }
    fn explore(&self, ctx: &mut Ctx) {
        let mut idx = 0;
        for len in 1..=3u8 { for stress in 0..3u8 { for tone in TONES { for kind in KINDS { for posn in 0..3usize {
            idx += 1; if idx % ctx.nshards != ctx.shard { continue }
            run_case(self, ctx, json!({"len": len, "stress": stress, "tone": tone, "kind": kind, "pos": posn}));
        } } } } }
    }
    fn check(&self, case: &Value) -> Outcome {
        let s = St { len: case["len"].as_u64().unwrap_or(1) as u8, stress: case["stress"].as_u64().unwrap_or(0) as u8, tone: case["tone"].as_u64().unwrap_or(0) as u16 };
        let kind = case["kind"].as_str().unwrap_or("in-ipa"); let posn = case["pos"].as_u64().unwrap_or(0) as usize;
        if kind == "out-two" { return self.check_two(&s, posn) }
        let text = word_text(&s, posn);
        let w = match api::parse_word(&text) { Ok(Ok(w)) => w, other => return Outcome::fail("word does not parse", json!({"word": text, "r": format!("{other:?}")})) };
        let mw = MWord::from_asca(&w);
        let a = tables().by_name["a"]; let mut an = a; an.set_feat(crate::gen::fidx("nasal"), true);
        if state_of(&mw, |x| *x == a) != Some(s) { return Outcome::fail("word does not parse to the intended state", json!({"word": text, "parsed": mw.show()})) }
        let mut nontrivial = false;
        for m in all_mods() {
            let is_syll = kind == "in-syll" || kind == "out-syll" || kind.starts_with("ctx-syll");
            let has_len = m.long.is_some() || m.over.is_some();
            let mt = mods_text(&m, true);
            if mt.is_empty() { continue }
            let rule = match kind { "in-ipa" => format!("a:[{mt}] > [+nasal]"), "in-group" => format!("V:[+low,{mt}] > [+nasal]"), "in-matrix" => format!("[+syll,+low,{mt}] > [+nasal]"),
                                    "in-syll" => format!("%:[{mt}] > [tone:7] / %_%"),
                                    // the same modifiers on an element of the environment: the neighbour of the target is the focus and receives the marker
                                    "ctx-syll-after" => format!("i > [+nasal] / _%:[{mt}]"), "ctx-syll-before" => format!("k > [+nasal] / %:[{mt}]_"),
                                    "ctx-seg-after" => format!("[] > [+nasal] / _a:[{mt}]"), "ctx-seg-before" => format!("[] > [+nasal] / [+syll,+low,{mt}]_"),
                                    "out-seg" => format!("a > [{mt}]"), "out-seg-feat" => format!("a > [+nasal,{mt}]"), "out-seg-matrix-in" => format!("[+low] > [{mt}]"), _ => format!("% > [{mt}] / %_%") };
            let got = api::apply_rules(&[rule.clone()], &w);
            let cell = |what: &str| format!("{kind}|{what}|long={:?},over={:?},stress={:?},sec={:?},tone={}|len{}", m.long, m.over, m.stress, m.sec, m.tone.is_some(), s.len).replace("Some(true)", "+").replace("Some(false)", "-").replace("None", "0");
            let detail = |exp: String, got: String| json!({"rule": rule, "word": text, "expected": exp, "got": got});
            let got = match got { Err(ab) => return Outcome::fail(format!("{}|{}", cell("abnormal"), ab.signature()), detail("a result".into(), format!("{ab:?}"))), Ok(g) => g };
            if (kind == "in-syll" || kind.starts_with("ctx-syll")) && has_len {
                // `%:[±long]`: a syllable can only have the parameters stress and tone
                if got.is_ok() { return Outcome::fail(cell("length on % accepted"), detail("an error".into(), "Ok".into())) }
                continue
            }
            // `% > [±long,…]`: the manual does not say; either an error or the length part is ignored
            let m = if kind == "out-syll" && has_len { if got.is_err() { continue } Mods { long: None, over: None, ..m } } else { m };
            if kind.starts_with("in-") || kind.starts_with("ctx-") {
                let expect_match = matches(&s, &m);
                match got {
                    Err(e) => { if !contradictory(&m) { return Outcome::fail(cell("unexpected error"), detail(format!("match={expect_match}"), format!("{e:?}"))) } }
                    Ok(g) => {
                        let g = MWord::from_asca(&g);
                        let fired = g != mw;
                        if fired != expect_match { return Outcome::fail(cell(if expect_match { "should match" } else { "should not match" }), detail(format!("match={expect_match}"), g.show())) }
                        if fired {
                            // the marker, and nothing else, changed
                            let ok = if kind.starts_with("ctx-") {
                                let mut x = mw.clone(); let nas = crate::gen::fidx("nasal");
                                let first_a = x.sylls[1].segs.iter().position(|y| *y == a).unwrap_or(0); let last_a = x.sylls[1].segs.iter().rposition(|y| *y == a).unwrap_or(0);
                                match kind {
                                    "ctx-syll-after" => x.sylls[0].segs[1].set_feat(nas, true),
                                    "ctx-syll-before" => x.sylls[2].segs[0].set_feat(nas, true),
                                    "ctx-seg-after" => if first_a == 0 { x.sylls[0].segs[1].set_feat(nas, true) } else { x.sylls[1].segs[first_a - 1].set_feat(nas, true) },
                                    _ => if last_a + 1 == x.sylls[1].segs.len() { x.sylls[2].segs[0].set_feat(nas, true) } else { x.sylls[1].segs[last_a + 1].set_feat(nas, true) },
                                }
                                x == g
                            } else if is_syll { let mut x = mw.clone(); x.sylls[1].tone = 7; x == g } else { let mut x = mw.clone(); for sg in x.sylls[1].segs.iter_mut() { if *sg == a { *sg = an; } } x == g };
                            if !ok { return Outcome::fail(cell("match changed more than the marker"), detail("only the marker".into(), g.show())) }
                        }
                        if !expect_match { nontrivial = true; }
                    }
                }
            } else {
                let expect = set_states(&s, &m);
                match (got, expect) {
                    (Err(_), None) => {}
                    (Ok(g), None) => return Outcome::fail(cell("contradictory output accepted"), detail("an error".into(), MWord::from_asca(&g).show())),
                    (Err(e), Some(x)) => return Outcome::fail(cell("unexpected error"), detail(format!("{x:?}"), format!("{e:?}"))),
                    (Ok(g), Some(x)) => {
                        let g = MWord::from_asca(&g);
                        // `a > [+nasal, M]`: every copy of the (possibly lengthened) segment carries the feature change
                        let tgt = if kind == "out-seg-feat" { an } else { a };
                        if kind == "out-seg-feat" && g.sylls.get(1).map(|sy| sy.segs.iter().any(|y| *y == a)).unwrap_or(true) { return Outcome::fail(cell("feature change did not reach every copy of the segment"), detail(format!("{x:?} all nasal"), g.show())) }
                        let st = state_of(&g, |y| *y == tgt);
                        // the rest of the word is untouched: other syllables equal, consonants of the target syllable equal
                        let frame_ok = g.sylls.len() == 3 && g.sylls[0] == mw.sylls[0] && g.sylls[2] == mw.sylls[2]
                            && g.sylls[1].segs.iter().filter(|y| **y != tgt).collect::<Vec<_>>() == mw.sylls[1].segs.iter().filter(|y| **y != a).collect::<Vec<_>>();
                        let ok = frame_ok && st.map(|st| x.contains(&st)).unwrap_or(false);
                        if !ok { return Outcome::fail(cell("wrong resulting state"), detail(format!("{x:?}"), format!("{} = {st:?}", g.show()))) }
                        if !x.contains(&s) { nontrivial = true; }
                    }
                }
            }
        }
        if nontrivial { Outcome::pass_nt(hash64(&case.to_string())) } else { Outcome::pass() }
    }
}
