//! C17 — errors can always be shown and point at the line that caused them (fault enumeration).

use crate::api;
use crate::core::*;
use crate::props::c02::strs;
use asca::{Error, RuleGroup};
use serde_json::{json, Value};

pub struct C17;

/// syntactically invalid rule lines (each meant to reach a different RuleSyntaxError variant)
const SYNTAX_FAULTS: &[&str] = &[
    "a > [+]", "a > [tone 5]", "a - e", "a > e ;x", "a > ☃", "a . b > c", "a > [tone:x]", "a > [+voice p]", "a > e / (k,1:3", "a > e / _ _ k", "% :[+voice] > e", "a > e / k", "C=x > e", "Q > e",
    "a > e / (/) _", "a > e k_", "a:e > e", "a e", "a > e / {k p_", "a > e / (k,1 2)_", "a > [tone:12345]", "a > ɧ͡ʘ", "* a > e", "a > * e", "a > & e", "+voice > e", "a > [[+voice]]", "a > [+tone:5]",
    "a > ", " > e", "a > e / ", "* > &", "* > *", "a > e / #_#k#", "a > e / k#_", "a > e / _#k", "# > e", "(a) > e", "a > {}", "a > [+blah]", "a > [blah:5]", "pʰ̃ʱ > e", "[+voice]ʰ > e", "a > e / k_ , ", "a, b, c > d, e",
    "a > e / _(k,3:1)", "a > [+voice", "a > e / <k [+voice] _", "a > e ) _", "a > e / _ , k_ | l_ , m_, n_", "a > 99999999999999999999", "a,,b > c",
];

/// rules that parse but fail when applied to a word containing `a` (each meant to reach a different RuleRuntimeError variant)
const RUNTIME_FAULTS: &[&str] = &[
    "a > 5", "a > [αvoice]", "a > [-αlab] / [αvoice]_", "{a, b} > {x}", "a > {x, y}", "* > e", "* > [+voice] / a_", "a > [+place]", "a > [-root]", "a > [+manner]", "a > [+overlong, -long]", "a > [-stress, +secstress]",
    "% > a", "a > %", "$ a > a e", "% a > &", "% $ > &", "% > <a ...> / _a", "% > <[+voice]>", "* > <a ...> / a_", "[αlab] > [αcor]", "[αvoice] > [αlab]", "* > e / :{ a_, t_ }:", "{a, #} > x", "a > 1 / %=1 _", "% > <a 1> / %=1 _",
    "a > [αplace] / _[αvoice]", "a > [-αplace] / _[αplace]", "* > {x,y} / a_", "$ > [+stress]", "a > $", "% > $", "{%, a} > {a, %}", "{a, %} > {$, $}", "a=1 > 2",
];
/// errors without any position (known limitation: the value carries no rule reference)
const POSITIONLESS: &[&str] = &["a > *", "% > *", "$ > * "];

const BACKGROUND: &[&str] = &["k > ɡ", "m > n / _#", "u > o | _r", ";; background comment", "", "   ", "ʃ > s / _{i, e}", "l > r / V_V", "[+nasal] > [-nasal] / _%:[+stress] ;; c", "N=1 > 1 / _k"];

const ALIAS_FAULTS_INTO: &[&str] = &["x > ", "x", "> a", "x > [+voice]", "x > a:[+overlong,-long]", "x > a:[-stress,+secstress]", "x > a:[+blah]", "x > ☃", "+x > a b > c", "x > a:[-root]", "x > [+long]", "\\u{ZZ} > a", "@{nothing} > a", "x y > a", "x > a:[tone:x]", "x > a:[+place]", "x > Q"];
const ALIAS_FAULTS_FROM: &[&str] = &["a > ", "a", "> x", "a:[+blah] > x", "a:[tone 5] > x", "☃ > x", "a, b > x", "a > \\u{110000}", "a > @{nothing}", "Q > x", "a:[ > x", "a > x > y", "[+voice > x", "a:[+tone:5] > x"];
const GOOD_ALIAS_INTO: &[&str] = &["ж > ʃ", "ю > a:[+stress]", "カ > ka"];
const GOOD_ALIAS_FROM: &[&str] = &["ʃ > sh", "$ > *", "a:[+stress] > á"];
const BAD_WORDS: &[&str] = &["pa☃ta", "ʰpa", "ːpa", "pa123456", "ˈ", "paˈ", "pa.t̪̃ʱʼ", "qǀ̃̃͡", "pa*", "%", "t͡", "a.b.c.d.ɧ͡ʘ"];

/// a group without any rule line is a completely empty RuleGroup (no name, no description): what an unused rule box of the web UI sends
fn mk_groups(gs: &[Vec<String>]) -> Vec<RuleGroup> { gs.iter().enumerate().map(|(i, r)| if r.is_empty() { RuleGroup::new() } else { RuleGroup { name: format!("group {i}"), rule: r.clone(), description: String::new() } }).collect() }

/// parses the plain-text (NO_COLOR) output of a formatter: (echoed line, caret columns, trailer)
fn parse_formatted(txt: &str) -> Option<(String, Vec<usize>, String)> {
    let lines: Vec<&str> = txt.split('\n').collect();
    if lines.len() < 3 { return None }
    let src = lines[1].strip_prefix("    |     ")?.to_string();
    let arrows = lines[2].strip_prefix("    |     ")?;
    let cols: Vec<usize> = arrows.chars().enumerate().filter(|(_, c)| *c == '^').map(|(i, _)| i).collect();
    Some((src, cols, lines.get(3).unwrap_or(&"").to_string()))
}

fn check_random(case: &Value) -> Outcome {
    let groups = crate::props::c02::case_groups(case);
    let words = strs(&case["words"]); let into = strs(&case["into"]); let from = strs(&case["from"]);
    let e = match api::run(&groups, &words, &into, &from) { Err(_) => return Outcome::skip("a call did not return (C02's business)"), Ok(Ok(_)) => return Outcome::skip("no error"), Ok(Err(e)) => e };
    let variant = api::err_variant(&e);
    let txt = match api::format_error(&e, &groups, &words, &into, &from) { Err(a) => return Outcome::fail(format!("formatter panics|{variant}|{}", a.signature()), json!({"case": case, "error": format!("{e:?}")})), Ok(t) => t };
    let detail = |what: String| json!({"case": case, "error": format!("{e:?}"), "formatted": txt, "what": what});
    if ["RuleRun(DeletionOnlySeg)", "RuleRun(DeletionOnlySyll)"].contains(&variant.as_str()) { return Outcome::fail(format!("{variant} names no rule or line"), detail("no trailer".into())) }
    let Some((src, cols, trailer)) = parse_formatted(&txt) else { return Outcome::fail(format!("{variant}: unparseable formatter output"), detail("expected message, echoed line, carets".into())) };
    let n = src.chars().count();
    match &e {
        Error::RuleSyn(_) | Error::RuleRun(_) => {
            let nums: Vec<usize> = trailer.split(|c: char| !c.is_ascii_digit()).filter(|x| !x.is_empty()).filter_map(|x| x.parse().ok()).collect();
            let ok = nums.len() == 2 && nums[0] >= 1 && nums[0] <= groups.len() && nums[1] >= 1 && nums[1] <= groups[nums[0] - 1].rule.len() && groups[nums[0] - 1].rule[nums[1] - 1] == src;
            if !ok { return Outcome::fail(format!("{variant}: names a rule/line that does not exist or echoes another line"), detail(format!("trailer `{}`", trailer.trim()))) }
        }
        Error::AliasSyn(_) | Error::AliasRun(_) => { if !into.contains(&src) && !from.contains(&src) { return Outcome::fail(format!("{variant}: echoes a line that is not an alias line"), detail(src.clone())) } }
        _ => {}
    }
    if cols.is_empty() || cols.iter().any(|c| *c > n + 1) { return Outcome::fail(format!("{variant}: caret outside the line"), detail(format!("caret columns {cols:?}, line has {n} characters"))) }
    Outcome::pass_nt(hash64(&(variant.clone(), src))).with_class(format!("variant:{variant}"))
}

impl Property for C17 {
    fn id(&self) -> &'static str { "C17" }
    fn rule(&self) -> String {
        "Fault enumeration: valid backgrounds of 1-4 rule groups × 1-4 lines (a third of them also with completely empty rule groups before and after the faulty group) (valid rules that never fire on the trigger words, blank and comment lines) and, for EVERY (group, line) position, every fault of a catalogue planted there: 52 syntactically invalid lines, 35 rules that fail at run time on a word containing `a`, 3 position-less runtime errors; likewise every faulty alias line (17 deromaniser, 14 romaniser) at every position among valid alias lines, and every bad word at every position of a word list. \
         Oracle: asca::run returns Err; the matching formatter (NO_COLOR) returns without panicking; its text echoes exactly the planted line (resp. the alias line, the bad word), names `Rule g+1, Line l+1` (resp. `deromaniser|romaniser, line l+1`) equal to the planted position, and every caret column lies in [0, chars(line)+1]. \
         A catalogue entry that does not yield Err on this tree is reported under `catalogue_entries_not_failing` (not a violation: the catalogue over-approximates). Non-trivial: distinct (error variant, group, line) triples. Both tiers enumerate the full catalogue × every position of 5 fixed and 30 (thorough: 300) seed-generated background shapes. (R) random part: generated multi-group rule lists, mutated rule lists and noise (C02's generators) — whenever run returns Err, the formatted text must name a rule/line (alias line) that exists and every caret must lie within that line (quick 300k, thorough 3M).".into()
    }
    fn level(&self) -> &'static str { "fault_enumeration" }
    fn explore(&self, ctx: &mut Ctx) {
        // backgrounds: shapes (lines per group); filler lines rotate through BACKGROUND
        let mut shapes: Vec<Vec<usize>> = vec![vec![1], vec![3], vec![2, 1], vec![1, 4, 2], vec![2, 2, 1, 3]];
        { let mut x = ctx.seed.wrapping_mul(2654435761) | 1; for _ in 0..ctx.tier.pick(30, 300) { let ng = 1 + (x % 4) as usize; x = x.wrapping_mul(6364136223846793005).wrapping_add(1442695040888963407); shapes.push((0..ng).map(|k| 1 + ((x >> (8 * k)) % 4) as usize).collect()); } }
        let mut idx = 0usize;
        for (si, shape) in shapes.iter().enumerate() {
            for g in 0..shape.len() { for l in 0..shape[g] {
                let all: Vec<(&str, &str)> = SYNTAX_FAULTS.iter().map(|f| ("syntax", *f)).chain(RUNTIME_FAULTS.iter().map(|f| ("runtime", *f))).chain(POSITIONLESS.iter().map(|f| ("positionless", *f))).collect();
                for (fi, (class, fault)) in all.iter().enumerate() {
                    idx += 1; if idx % ctx.nshards != ctx.shard { continue }
                    let mut groups: Vec<Vec<String>> = vec![]; let mut k = si + fi;
                    for (gi, n) in shape.iter().enumerate() { let mut rs = vec![]; for li in 0..*n { rs.push(if gi == g && li == l { fault.to_string() } else { k += 1; BACKGROUND[k % BACKGROUND.len()].to_string() }); } groups.push(rs); }
                    run_case(self, ctx, json!({"kind": "rule", "class": class, "groups": groups, "group": g, "line": l, "words": ["pa.ta", "ˈa"]}));
                    // the same with completely empty groups in front of and behind the faulty group
                    if fi % 3 == si % 3 {
                        let mut g2 = groups.clone(); g2.insert(g + 1, vec![]); g2.insert(g, vec![]); if g > 0 { g2.insert(0, vec![]); }
                        let shift = if g > 0 { 2 } else { 1 };
                        run_case(self, ctx, json!({"kind": "rule", "class": class, "groups": g2, "group": g + shift, "line": l, "words": ["pa.ta", "ˈa"]}));
                    }
                }
            } }
        }
        for (kind, faults, good) in [("into", ALIAS_FAULTS_INTO, GOOD_ALIAS_INTO), ("from", ALIAS_FAULTS_FROM, GOOD_ALIAS_FROM)] {
            for fault in faults { for n in 1..=3usize { for l in 0..n {
                idx += 1; if idx % ctx.nshards != ctx.shard { continue }
                let lines: Vec<String> = (0..n).map(|i| if i == l { fault.to_string() } else { good[i % good.len()].to_string() }).collect();
                run_case(self, ctx, json!({"kind": kind, "lines": lines, "line": l, "words": ["xa.pa", "pa"]}));
            } } }
        }
        let n = ctx.tier.pick(300_000, 3_000_000);
        run_tape_batches(self, ctx, "random", n, 400, &|t| {
            let mut c = match t.pick(3) { 0 => crate::props::c02::gen_structured_case(t, crate::gen::RuleProfile::FULL), 1 => crate::props::c02::gen_mutated_case(t), _ => crate::props::c02::gen_noise_case(t) };
            c["kind"] = json!("random"); Some(c)
        });
        for bad in BAD_WORDS { for n in 1..=3usize { for l in 0..n {
            idx += 1; if idx % ctx.nshards != ctx.shard { continue }
            let words: Vec<String> = (0..n).map(|i| if i == l { bad.to_string() } else { ["pa.ta", "ˈke.lo"][i % 2].to_string() }).collect();
            run_case(self, ctx, json!({"kind": "word", "words": words, "line": l}));
        } } }
    }
    fn check(&self, case: &Value) -> Outcome {
        if case["kind"] == "random" { return check_random(case) }
        let kind = case["kind"].as_str().unwrap_or("");
        let words = strs(&case["words"]); let planted = case["line"].as_u64().unwrap_or(0) as usize;
        let (groups, into, from): (Vec<RuleGroup>, Vec<String>, Vec<String>) = match kind {
            "rule" => (mk_groups(&case["groups"].as_array().map(|a| a.iter().map(strs).collect::<Vec<_>>()).unwrap_or_default()), vec![], vec![]),
            "into" => (mk_groups(&[vec!["k > ɡ".into()]]), strs(&case["lines"]), vec![]),
            "from" => (mk_groups(&[vec!["k > ɡ".into()]]), vec![], strs(&case["lines"])),
            _ => (mk_groups(&[vec!["k > ɡ".into()]]), vec![], vec![]),
        };
        let r = match api::run(&groups, &words, &into, &from) { Err(a) => return Outcome::fail(format!("abnormal|{}", a.signature()), json!({"case": case})), Ok(r) => r };
        let e = match r { Ok(out) => return Outcome::skip(&format!("catalogue entry does not fail on this tree ({kind}: {})", match kind { "rule" => groups[case["group"].as_u64().unwrap_or(0) as usize].rule[planted].clone(), "word" => words[planted].clone(), _ => strs(&case["lines"])[planted].clone() } + &format!(" -> {out:?}"))), Err(e) => e };
        let variant = api::err_variant(&e);
        let txt = match api::format_error(&e, &groups, &words, &into, &from) { Err(a) => return Outcome::fail(format!("formatter panics|{variant}|{}", a.signature()), json!({"case": case, "error": format!("{e:?}")})), Ok(t) => t };
        let detail = |what: &str| json!({"case": case, "error": format!("{e:?}"), "formatted": txt, "what": what});
        let family_ok = matches!((kind, &e), ("rule", Error::RuleSyn(_) | Error::RuleRun(_)) | ("into" | "from", Error::AliasSyn(_) | Error::AliasRun(_)) | ("word", Error::WordSyn(_) | Error::WordRun(_)));
        if !family_ok { return Outcome::fail(format!("{kind} fault reported as {variant}"), detail("the error is of a different family than the planted fault")) }
        match kind {
            "rule" => {
                let g = case["group"].as_u64().unwrap_or(0) as usize;
                let line = &groups[g].rule[planted];
                if case["class"] == "positionless" || ["RuleRun(DeletionOnlySeg)", "RuleRun(DeletionOnlySyll)"].contains(&variant.as_str()) {
                    return Outcome::fail(format!("{variant} names no rule or line"), detail("the formatted error has no `@ Rule g, Line l` trailer and no echoed line"))
                }
                let Some((src, cols, trailer)) = parse_formatted(&txt) else { return Outcome::fail(format!("{variant}: unparseable formatter output"), detail("expected message, echoed line, carets, trailer")) };
                if trailer.trim() != format!("@ Rule {}, Line {}", g + 1, planted + 1) { return Outcome::fail(format!("{variant}: names a different rule/line than the faulty one"), detail(&format!("expected `@ Rule {}, Line {}`, got `{}`", g + 1, planted + 1, trailer.trim()))) }
                if src != *line { return Outcome::fail(format!("{variant}: echoes a different line"), detail("echoed source line is not the planted line")) }
                let n = line.chars().count();
                if cols.is_empty() || cols.iter().any(|c| *c > n + 1) { return Outcome::fail(format!("{variant}: caret outside the line"), detail(&format!("caret columns {cols:?}, line has {n} characters"))) }
            }
            "into" | "from" => {
                let lines = strs(&case["lines"]);
                let Some((src, cols, trailer)) = parse_formatted(&txt) else { return Outcome::fail(format!("{variant}: unparseable formatter output"), detail("expected message, echoed line, carets, trailer")) };
                let want = format!("@ {}, line {}", if kind == "into" { "deromaniser" } else { "romaniser" }, planted + 1);
                if trailer.trim() != want { return Outcome::fail(format!("{variant}: names a different alias line than the faulty one"), detail(&format!("expected `{want}`, got `{}`", trailer.trim()))) }
                if src != lines[planted] { return Outcome::fail(format!("{variant}: echoes a different line"), detail("echoed alias line is not the planted line")) }
                let n = lines[planted].chars().count();
                if cols.is_empty() || cols.iter().any(|c| *c > n + 1) { return Outcome::fail(format!("{variant}: caret outside the line"), detail(&format!("caret columns {cols:?}, line has {n} characters"))) }
            }
            _ => {
                let Some((src, cols, _)) = parse_formatted(&txt) else { return Outcome::fail(format!("{variant}: unparseable formatter output"), detail("expected message, echoed word, carets")) };
                if !src.contains(&words[planted]) && !words[planted].contains(src.trim()) { return Outcome::fail(format!("{variant}: echoes a different word"), detail("echoed word is not the bad word")) }
                let n = src.chars().count();
                if cols.is_empty() || cols.iter().any(|c| *c > n + 1) { return Outcome::fail(format!("{variant}: caret outside the word"), detail(&format!("caret columns {cols:?}, echoed text has {n} characters"))) }
            }
        }
        Outcome::pass_nt(hash64(&(variant.clone(), case["group"].as_u64(), planted, kind))).with_class(format!("variant:{variant}"))
    }
}
