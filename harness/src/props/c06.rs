//! C06 — a rule that cannot match leaves the word untouched.

use crate::api;
use crate::core::*;
use crate::gen::*;
use crate::model::*;
use serde_json::{json, Value};

pub struct C06;

/// plants `z` as a mandatory top-level element of every input term (insertion: of the context)
fn plant(t: &mut Tape, r: &mut Rule, z: &str) {
    let lit = || El::Ipa { text: z.to_string(), params: None };
    match &mut r.input {
        Side::Terms(terms) => for (j, term) in terms.iter_mut().enumerate() {
            // an insertion alternative of a mixed condensed rule has no input to plant in: its own environment gets the literal
            if matches!(term.first(), Some(El::Ipa { text, .. }) if text == "*") {
                if let Some(EnvSpec::List(items)) = &mut r.context { if let Some(EnvItem::One(e)) = items.get_mut(j) { if t.chance(1, 2) { e.before.insert(0, lit()); } else { e.after.push(lit()); } continue } }
                return
            }
            let i = t.pick(term.len() + 1); term.insert(i, lit());
        },
        _ => {
            // insertion: every environment of the context gets the literal on one side
            let plant_env = |t: &mut Tape, e: &mut Env| {
                if t.chance(1, 2) { let lo = if matches!(e.before.first(), Some(El::WBound)) { 1 } else { 0 }; let i = lo + t.pick(e.before.len() + 1 - lo); e.before.insert(i, lit()); }
                else { let hi = if matches!(e.after.last(), Some(El::WBound)) { e.after.len() - 1 } else { e.after.len() }; let i = t.pick(hi + 1); e.after.insert(i, lit()); }
            };
            match &mut r.context {
                Some(EnvSpec::List(items)) => for it in items.iter_mut() { match it { EnvItem::One(e) => plant_env(t, e), EnvItem::Set(es) => for e in es.iter_mut() { plant_env(t, e) } } },
                Some(EnvSpec::Special(xs)) => { let lo = if matches!(xs.first(), Some(El::WBound)) { 1 } else { 0 }; let i = lo + t.pick(xs.len() + 1 - lo); xs.insert(i, lit()); }
                None => r.context = Some(EnvSpec::List(vec![EnvItem::One(Env { before: vec![lit()], after: vec![] })])),
            }
        }
    }
}

/// replaces one element of every input term by a structure `<s1 .. sk>` spelling a syllable of the word (graphemes or matching groups), with `z` inserted among the items
fn plant_in_structure(t: &mut Tape, r: &mut Rule, z: &str, w: &MWord) -> bool {
    let tb = tables();
    let cands: Vec<&MSyll> = w.sylls.iter().filter(|s| !s.segs.is_empty() && s.segs.windows(2).all(|p| p[0] != p[1]) && s.segs.iter().all(|x| tb.by_value.contains_key(x))).collect();
    if cands.is_empty() { return false }
    let Side::Terms(terms) = &mut r.input else { return false };
    let mut positions = vec![];
    for term in terms.iter_mut() {
        let idxs: Vec<usize> = term.iter().enumerate().filter(|(_, e)| !matches!(e, El::Ellipsis)).map(|(i, _)| i).collect();
        if idxs.is_empty() { return false }
        let i = idxs[t.pick(idxs.len())];
        let sy = cands[t.pick(cands.len())];
        let mut items: Vec<El> = sy.segs.iter().map(|x| {
            if t.chance(1, 4) { let gs: Vec<char> = GROUPS.iter().copied().filter(|g| group_matches(*g, x)).collect(); if !gs.is_empty() { return El::Group { letter: gs[t.pick(gs.len())], params: None, var: None } } }
            El::Ipa { text: tb.by_value[x].clone(), params: None }
        }).collect();
        let at = match t.weighted(&[3, 1, 1]) { 0 => items.len(), 1 => 0, _ => t.pick(items.len() + 1) };
        items.insert(at, El::Ipa { text: z.to_string(), params: None });
        if at + 1 == items.len() && t.chance(1, 4) { items.push(El::Ellipsis); }
        term[i] = El::Struct { items, params: None, var: None };
        positions.push(i);
    }
    // keep a substitution well-typed: a syllable in the input takes a syllable-level matrix in the output
    if let Side::Terms(outs) = &mut r.output { for (j, i) in positions.iter().enumerate() { let jj = j.min(outs.len().saturating_sub(1)); if let Some(o) = outs.get_mut(jj) { if let Some(e) = o.get_mut(*i) {
        *e = El::Matrix { params: Params { args: vec![(Sign::Plus, PName::Stress)], tone: None }, var: None }; } } } }
    true
}

impl Property for C06 {
    fn id(&self) -> &'static str { "C06" }
    fn rule(&self) -> String {
        "A rule from the full-grammar generator (all four rule types, condensed rules, sets, optionals, ellipses, structures, variables, alphas, environment sets; elements word-directed) and a generated word (30% from the rich pool, stress/tone/length); \
         a literal z — a plain phone from the common pool or (one in five) a base that occurs in the word plus one diacritic, half of those with a parameter list such as `:[-long]` — whose bundle differs from every segment of the parsed word is planted as a mandatory top-level element of every input term (insertion rules: on one side of every environment of the context); in one non-insertion rule out of six it is instead planted inside an input structure `<…>` whose other items spell out a whole syllable of the word. \
         Also blank, whitespace-only and comment-only lines. Oracle: the structural result of applying the rule is Err(_) or equal to the word (segments, boundaries, stress, tone); black-box cross-check: asca::run gives the same text as the empty rule list. \
         Non-trivial: the rule uses ≥1 of set/optional/ellipsis/structure/variable/alpha/env-set/condensed and the word has ≥2 syllables, and the call returned Ok. Quick 2M, thorough 20M cases.".into()
    }
    fn explore(&self, ctx: &mut Ctx) {
        let n = ctx.tier.pick(2_000_000, 20_000_000);
        run_tape_batches(self, ctx, "planted", n, 400, &|t| {
            let prof_w = if t.chance(3, 10) { WordProfile::RICH } else { WordProfile::PLAIN };
            let word = gen_word(t, prof_w).text();
            let Ok(Ok(pw)) = api::parse_word(&word) else { return None };
            let segs = word_segs(&pw);
            let flat = MWord::from_asca(&pw).flat();
            if t.chance(1, 40) { let line = ["", "   ", ";; a comment", "  ;; x > y", "\t"][t.pick(5)]; return Some(json!({"rule": line, "word": word, "blank": true, "uses": [], "kind": "blank"})) }
            let mut g = RuleGen::new(RuleProfile::FULL, segs);
            let mut r = g.rule(t);
            let cands: Vec<&PSeg> = pool().common.iter().filter(|p| !flat.contains(&p.seg)).collect();
            if cands.is_empty() { return None }
            let zc = cands[t.pick(cands.len())]; let mut z = zc.text.clone(); let mut zseg = zc.seg;
            // one literal in five carries a diacritic and (half of those) a parameter list: a base that does occur in the word, marked so that the marked segment does not
            if t.chance(1, 5) {
                let marked: Vec<&PSeg> = pool().dia1.iter().filter(|p| !flat.contains(&p.seg) && g.segs.iter().any(|(gr, _)| p.text.starts_with(gr.as_str()) && p.text.chars().count() == gr.chars().count() + 1)).collect();
                if !marked.is_empty() { let m = marked[t.pick(marked.len())]; z = m.text.clone(); zseg = m.seg; if t.chance(1, 2) { z.push_str([":[-overlong]", ":[-sec.stress]", ":[-long]", ":[+stress]"][t.pick(4)]); } }
            }
            // one rule in six: the literal is planted *inside* an input structure whose other items spell out a whole syllable of the word,
            // so that the syllable is used up exactly where the absent literal stands (or just before / after it)
            let planted_in_struct = rule_kind(&r) != "insertion" && t.chance(1, 6) && plant_in_structure(t, &mut r, &z, &MWord::from_asca(&pw));
            if planted_in_struct { g.uses.insert("structure"); } else { plant(t, &mut r, &z); }
            let kind_of = |e: Option<&El>| match e { None => "none", Some(El::SBound) => "sbound", Some(El::WBound) => "wbound", Some(El::Struct { .. }) => "struct", Some(El::Syll { .. }) => "syll", Some(El::Opt { .. }) => "opt", Some(El::Ellipsis) => "ellipsis", Some(El::Set(_)) => "set", Some(_) => "seg" };
            // (for a mixed condensed rule the insertion alternative and its environment are what the listed insertion findings are about)
            let star = match &r.input { Side::Terms(ts) => ts.iter().position(|tm| matches!(tm.first(), Some(El::Ipa { text, .. }) if text == "*")), _ => None };
            let (bl, af) = match &r.context { Some(EnvSpec::List(items)) => match items.get(star.unwrap_or(0)) { Some(EnvItem::One(e)) => (kind_of(e.before.last()), kind_of(e.after.first())), _ => ("?", "?") }, _ => ("?", "?") };
            Some(json!({"rule": rule_text(&r), "word": word, "planted": z, "planted_seg": zseg.to_json(), "uses": g.uses.iter().collect::<Vec<_>>(), "kind": if star.is_some() { "insertion" } else { rule_kind(&r) }, "before_last": bl, "after_first": af}))
        });
    }
    fn check(&self, case: &Value) -> Outcome {
        let rule = case["rule"].as_str().unwrap_or(""); let word = case["word"].as_str().unwrap_or("");
        let w = match api::parse_word(word) { Ok(Ok(w)) => w, _ => return Outcome::skip("word does not parse") };
        let mw = MWord::from_asca(&w);
        if let Some(z) = case["planted"].as_str() {
            let zseg = if case["planted_seg"].is_null() { tables().by_name.get(z).copied() } else { Some(MSeg::from_json(&case["planted_seg"])) };
            match zseg { Some(zs) => if mw.flat().contains(&zs) { return Outcome::skip("planted literal occurs in the word") }, None => return Outcome::skip("planted literal unknown to the harness") }
        }
        let kind = case["kind"].as_str().unwrap_or("?");
        match api::apply_rules(&[rule.to_string()], &w) {
            Err(_) => Outcome::skip("call did not return (C02's business)"),
            Ok(Err(e)) => if case["blank"].as_bool() == Some(true) { Outcome::fail("blank or comment line is an error", json!({"rule": rule, "error": format!("{e:?}")})) } else { Outcome::skip(&format!("Err:{}", api::err_variant(&e))) },
            Ok(Ok(g)) => {
                let g = MWord::from_asca(&g);
                let sub = if kind != "insertion" { "" } else if case["before_last"] == "sbound" { " (context ends in `$` before `_`: fallback to the word end)" }
                          else if case["after_first"] == "sbound" || case["after_first"] == "struct" { " (context starts with `$`/structure after `_`: fallback to the word end)" } else { "" };
                if g != mw { return Outcome::fail(format!("{kind} rule with an absent mandatory literal changed the word{sub}"), json!({"rule": rule, "word": word, "planted": case["planted"], "got": g.show(), "expected": mw.show()})) }
                // black box: same text as the empty rule list
                let a = api::run1(&[rule.to_string()], word); let b = api::run1(&[], word);
                if let (Ok(Ok(a)), Ok(Ok(b))) = (&a, &b) { if a != b { return Outcome::fail(format!("{kind} rule: run output differs from the empty rule list"), json!({"rule": rule, "word": word, "run": a, "empty": b})) } }
                let uses = case["uses"].as_array().map(|u| u.iter().any(|x| ["set", "optional", "ellipsis", "structure", "variable", "alpha", "env_set", "condensed"].contains(&x.as_str().unwrap_or("")))).unwrap_or(false);
                let o = if uses && mw.sylls.len() >= 2 { Outcome::pass_nt(hash64(&(rule, word))) } else { Outcome::pass() };
                o.with_class(format!("kind:{kind}"))
            }
        }
    }
}
