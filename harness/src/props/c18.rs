//! C18 — the public Segment / Place accessors obey get/set laws (exhaustive).

use crate::core::*;
use asca::{NodeKind, Place, Segment};
use serde_json::{json, Value};

pub struct C18;

#[derive(Clone, Copy, PartialEq, Eq, Debug)]
struct MP { lab: Option<u8>, cor: Option<u8>, dor: Option<u8>, phr: Option<u8> }

/// documented layout: 4 presence bits, then lab:2 cor:2 dor:6 phr:2
fn decode(p: Option<u16>) -> MP {
    let Some(p) = p else { return MP { lab: None, cor: None, dor: None, phr: None } };
    MP {
        lab: if p & 0x8000 != 0 { Some(((p >> 10) & 3) as u8) } else { None },
        cor: if p & 0x4000 != 0 { Some(((p >> 8) & 3) as u8) } else { None },
        dor: if p & 0x2000 != 0 { Some(((p >> 2) & 63) as u8) } else { None },
        phr: if p & 0x1000 != 0 { Some((p & 3) as u8) } else { None },
    }
}
fn is_normal(p: Option<u16>) -> bool {
    match p {
        None => true,
        Some(0) => false,
        Some(p) => (p & 0x8000 != 0 || p & 0x0c00 == 0) && (p & 0x4000 != 0 || p & 0x0300 == 0) && (p & 0x2000 != 0 || p & 0x00fc == 0) && (p & 0x1000 != 0 || p & 0x0003 == 0),
    }
}
fn mk(p: Option<u16>) -> Place { let mut x = Place::default(); *x = p; x }
fn getters(p: &Place) -> MP { MP { lab: p.get_labial(), cor: p.get_coronal(), dor: p.get_dorsal(), phr: p.get_pharyngeal() } }

const SUB: [(&str, u8, u16, u16); 4] = [("labial", 3, 0x8000, 0x0c00), ("coronal", 3, 0x4000, 0x0300), ("dorsal", 63, 0x2000, 0x00fc), ("pharyngeal", 3, 0x1000, 0x0003)];

fn set(p: &mut Place, k: usize, v: Option<u8>) { match k { 0 => p.set_labial(v), 1 => p.set_coronal(v), 2 => p.set_dorsal(v), _ => p.set_pharyngeal(v) } }
fn mget(m: &MP, k: usize) -> Option<u8> { match k { 0 => m.lab, 1 => m.cor, 2 => m.dor, _ => m.phr } }
fn mset(m: &mut MP, k: usize, v: Option<u8>) { match k { 0 => m.lab = v, 1 => m.cor = v, 2 => m.dor = v, _ => m.phr = v } }

fn check_place(raw: Option<u16>) -> Result<u64, (String, Value)> {
    let p = mk(raw);
    let m = decode(raw);
    let mut eqs = 0u64;
    macro_rules! eq { ($sig:expr, $a:expr, $b:expr) => {{ eqs += 1; if $a != $b { return Err(($sig.to_string(), json!({"place": raw, "got": format!("{:?}", $a), "want": format!("{:?}", $b)}))) } }} }
    eq!("place|getters", getters(&p), m);
    eq!("place|is_some", p.is_some(), raw.is_some());
    eq!("place|is_none", p.is_none(), raw.is_none());
    eq!("place|labial_is_some", (p.labial_is_some(), p.labial_is_none()), (m.lab.is_some(), m.lab.is_none()));
    eq!("place|coronal_is_some", (p.coronal_is_some(), p.coronal_is_none()), (m.cor.is_some(), m.cor.is_none()));
    eq!("place|dorsal_is_some", (p.dorsal_is_some(), p.dorsal_is_none()), (m.dor.is_some(), m.dor.is_none()));
    eq!("place|pharyngeal_is_some", (p.pharyngeal_is_some(), p.pharyngeal_is_none()), (m.phr.is_some(), m.phr.is_none()));
    for k in 0..4 {
        let (name, max, bit, low) = SUB[k];
        for v in (0..=max).map(Some).chain(std::iter::once(None)) {
            let mut q = p; set(&mut q, k, v);
            let mut want = m; mset(&mut want, k, v);
            let got = getters(&q);
            eq!(format!("place|set_{name}|get_{name}"), mget(&got, k), v);
            for j in 0..4 { if j != k { eq!(format!("place|set_{name}|frame_{}", SUB[j].0), mget(&got, j), mget(&want, j)); } }
            eq!(format!("place|set_{name}|presence"), (q.labial_is_some(), q.coronal_is_some(), q.dorsal_is_some(), q.pharyngeal_is_some()),
                (want.lab.is_some(), want.cor.is_some(), want.dor.is_some(), want.phr.is_some()));
            if v.is_none() {
                if let Some(bits) = *q { eq!(format!("place|set_{name}(None)|residual_bits"), bits & (bit | low), 0u16); }
            }
            if is_normal(raw) {
                let empty = want.lab.is_none() && want.cor.is_none() && want.dor.is_none() && want.phr.is_none();
                eq!(format!("place|set_{name}|empty_is_none"), q.is_none(), empty);
                eq!(format!("place|set_{name}|stays_normal"), is_normal(*q), true);
                // a second application is idempotent
                let mut q2 = q; set(&mut q2, k, v);
                eq!(format!("place|set_{name}|idempotent"), *q2, *q);
            }
        }
    }
    Ok(eqs)
}

const NODES: [(NodeKind, u8); 7] = [(NodeKind::Root, 255), (NodeKind::Manner, 255), (NodeKind::Laryngeal, 255), (NodeKind::Labial, 3), (NodeKind::Coronal, 3), (NodeKind::Dorsal, 63), (NodeKind::Pharyngeal, 3)];
/// single-feature masks per node, as documented in the feature chart (root 3, manner 8, laryngeal 3, lab 2, cor 2, dor 6, phr 2 = 26 features)
const MASKS: [&[u8]; 7] = [&[4, 2, 1], &[128, 64, 32, 16, 8, 4, 2, 1], &[4, 2, 1], &[2, 1], &[2, 1], &[32, 16, 8, 4, 2, 1], &[2, 1]];

fn all_nodes(s: &Segment) -> [Option<u8>; 7] { let mut a = [None; 7]; for (i, (n, _)) in NODES.iter().enumerate() { a[i] = s.get_node(*n); } a }

fn check_seg(root: u8, manner: u8, lar: u8, raw: Option<u16>) -> Result<u64, (String, Value)> {
    let s = Segment { root, manner, laryngeal: lar, place: mk(raw) };
    let mut eqs = 0u64;
    let ctx = json!({"root": root, "manner": manner, "laryngeal": lar, "place": raw});
    macro_rules! eq { ($sig:expr, $a:expr, $b:expr) => {{ eqs += 1; if $a != $b { return Err(($sig.to_string(), json!({"segment": ctx, "got": format!("{:?}", $a), "want": format!("{:?}", $b)}))) } }} }
    let m = decode(raw);
    let base = [Some(root), Some(manner), Some(lar), m.lab, m.cor, m.dor, m.phr];
    eq!("seg|get_node", all_nodes(&s), base);
    eq!("seg|get_place_sub_nodes", s.get_place_sub_nodes(), (m.lab, m.cor, m.dor, m.phr));
    eq!("seg|is_place_some", (s.is_place_some(), s.is_place_none()), (raw.is_some(), raw.is_none()));
    eq!("seg|get_place_node", *s.get_place_node(), raw);
    for (i, (node, max)) in NODES.iter().enumerate() {
        let cur = base[i];
        eq!("seg|is_node_some", (s.is_node_some(*node), s.is_node_none(*node)), (cur.is_some(), cur.is_none()));
        eq!("seg|node_match_self", s.node_match(*node, cur), true);
        eq!("seg|node_match_other", s.node_match(*node, match cur { Some(v) => Some(v ^ 1), None => Some(0) }), false);
        if i >= 3 { eq!("seg|node_match_none", s.node_match(*node, None), cur.is_none()); }
        // set_node / get_node round trip on a few values
        for v in [Some(0u8), Some(1), Some(*max), Some(*max & 0b101010)].into_iter().chain(if i >= 3 { Some(None) } else { None }) {
            let mut t = s; t.set_node(*node, v);
            let mut want = base; want[i] = v;
            eq!(format!("seg|set_node|{node:?}"), all_nodes(&t), want);
        }
        // masks of several features ("a bitmask of the feature values"): a segment matches such a mask positively iff it matches every
        // single feature of it positively, and negatively iff it matches every single feature negatively
        for (a, b) in MASKS[i].iter().flat_map(|a| MASKS[i].iter().map(move |b| (*a, *b))).filter(|(a, b)| a < b) {
            let m = a | b;
            let conj = |pos: bool| s.feat_match(*node, a, pos) && s.feat_match(*node, b, pos);
            eq!(format!("seg|feat_match|two-feature mask|{node:?}"), (s.feat_match(*node, m, true), s.feat_match(*node, m, false)), (conj(true), conj(false)));
            // setting a two-feature mask sets (clears) both features, whatever was set before
            let mut t = s; t.set_feat(*node, m, true);
            let mut want = base; want[i] = Some(cur.unwrap_or(0) | m);
            eq!(format!("seg|set_feat+|two-feature mask|{node:?}"), all_nodes(&t), want);
            let mut t = s; t.set_feat(*node, m, false);
            let mut want = base; want[i] = cur.map(|v| v & !m);
            eq!(format!("seg|set_feat-|two-feature mask|{node:?}"), all_nodes(&t), want);
        }
        for mask in MASKS[i] {
            let mask = *mask;
            // matching
            let (mp, mn) = match cur { Some(v) => (v & mask != 0, v & mask == 0), None => (false, false) };
            eq!(format!("seg|feat_match|{node:?}"), (s.feat_match(*node, mask, true), s.feat_match(*node, mask, false)), (mp, mn));
            eq!(format!("seg|get_feat|{node:?}"), s.get_feat(*node, mask), cur.map(|v| v & mask));
            // set positive: creates the node with the other bits clear
            let mut t = s; t.set_feat(*node, mask, true);
            let mut want = base; want[i] = Some(cur.unwrap_or(0) | mask);
            eq!(format!("seg|set_feat+|{node:?}"), all_nodes(&t), want);
            eq!(format!("seg|set_feat+|match|{node:?}"), t.feat_match(*node, mask, true), true);
            // set negative: clears the bit, no-op on an absent node
            let mut t = s; t.set_feat(*node, mask, false);
            let mut want = base; want[i] = cur.map(|v| v & !mask);
            eq!(format!("seg|set_feat-|{node:?}"), all_nodes(&t), want);
            if cur.is_some() { eq!(format!("seg|set_feat-|match|{node:?}"), t.feat_match(*node, mask, false), true); }
            else { eq!(format!("seg|set_feat-|absent_noop|{node:?}"), t, s); }
        }
    }
    Ok(eqs)
}

impl Property for C18 {
    fn id(&self) -> &'static str { "C18" }
    fn rule(&self) -> String {
        "Exhaustive: every Place value None ∪ Some(0..=65535) (built through the public DerefMut) × each of the four setters × every in-range value and None \
         (get-after-set, frame on the other three sub-nodes, presence predicates, no residual bits after set(None), empty ⇒ None and idempotence on normal places); \
         and Segment cases: every value 0..=255 of each of root/manner/laryngeal × every 61st place value ∪ None ∪ all single-sub-node places: get/set_node, node_match, \
         get/set_feat, feat_match for all 26 single-feature masks × both polarities, and feat_match / set_feat for every two-feature mask of a node (match = the conjunction of the single-feature answers; set = both features set or cleared). One case = one place value or one segment; non-trivial = the place has ≥1 sub-node \
         present (place cases) / the segment has a place (segment cases); distinct by construction (hash of the enumerated value). Both tiers enumerate the same complete space.".into()
    }
    fn assumptions(&self) -> Vec<String> { vec!["the documented bit layout in the doc comment of place.rs is the intended one".into(), "release build: debug_assert range checks are off, only in-range values are passed".into()] }
    fn exhaustive(&self, _t: Tier) -> bool { true }
    fn explore(&self, ctx: &mut Ctx) {
        // place cases, sharded by value
        let mut v: i64 = -1 + ctx.shard as i64;
        while v <= 0xFFFF {
            let raw = if v < 0 { None } else { Some(v as u16) };
            run_case(self, ctx, json!({"kind": "place", "value": raw}));
            v += ctx.nshards as i64;
        }
        // segment cases
        let mut places: Vec<Option<u16>> = vec![None];
        let mut x = 0u32; while x <= 0xFFFF { places.push(Some(x as u16)); x += 61; }
        for k in 0..4 { let (_, max, bit, _) = SUB[k]; let off = [10, 8, 2, 0][k]; for v in 0..=max as u16 { places.push(Some(bit | (v << off))); } }
        let mut idx = 0usize;
        for which in 0..3 {
            for val in 0..=255u8 {
                for p in &places {
                    idx += 1;
                    if idx % ctx.nshards != ctx.shard { continue }
                    let (r, m, l) = match which { 0 => (val, 0b1010_0101, 0b101), 1 => (0b110, val, 0b010), _ => (0b001, 0b0101_1010, val) };
                    run_case(self, ctx, json!({"kind": "seg", "root": r, "manner": m, "lar": l, "place": p}));
                }
            }
        }
    }
    fn check(&self, case: &Value) -> Outcome {
        let raw = |v: &Value| v.as_u64().map(|x| x as u16);
        let r = std::panic::catch_unwind(|| match case["kind"].as_str() {
            Some("place") => (check_place(raw(&case["value"])), raw(&case["value"]).map(|p| p & 0xF000 != 0).unwrap_or(false)),
            Some("seg") => (check_seg(case["root"].as_u64().unwrap_or(0) as u8, case["manner"].as_u64().unwrap_or(0) as u8, case["lar"].as_u64().unwrap_or(0) as u8, raw(&case["place"])), raw(&case["place"]).is_some()),
            _ => (Ok(0), false),
        });
        match r {
            Err(_) => Outcome::fail("panic in accessor", json!({"case": case})),
            Ok((Err((sig, detail)), _)) => Outcome::fail(sig, detail),
            Ok((Ok(_eqs), nt)) => if nt { Outcome::pass_nt(hash64(&case.to_string())) } else { Outcome::pass() },
        }
    }
}
