//! C13 — alternative spellings of the same rule or word behave identically.

use crate::api;
use crate::core::*;
use crate::gen::*;
use crate::props::c02::strs;
use serde_json::{json, Value};

pub struct C13;

/// the advertised spellings of every feature / node / suprasegmental name (first = canonical), transcribed from the pinned lexer's table
pub const SYNONYMS: &[&[&str]] = &[
    &["root", "rut", "rt"], &["consonantal", "consonant", "cons", "cns"], &["sonorant", "sonor", "son", "snrt", "sn"], &["syllabic", "syllab", "syll", "syl"],
    &["manner", "mann", "man", "mnnr", "mnr"], &["continuant", "contin", "cont", "cnt"], &["approximant", "approx", "appr", "app"], &["lateral", "latrl", "ltrl", "lat"],
    &["nasal", "nsl", "nas"], &["delayedrelease", "delrel", "d.r.", "del.rel.", "delayed", "dl", "dlrl", "dr", "delay", "drelease", "del.rel", "drel"],
    &["strident", "strid", "stri", "stridnt"], &["rhotic", "rhot", "rho", "rhtc", "rh"], &["click", "clik", "clk", "clck"],
    &["laryngeal", "laryng", "laryn", "lar"], &["voice", "voi", "vce", "vc"], &["spreadglottis", "spreadglot", "spread", "s.g.", "s.g", "sg"],
    &["constrictedglottis", "constricted", "constglot", "constr", "c.g.", "c.g", "cg"],
    &["place", "plce", "plc"], &["labial", "lbl", "lab"], &["labiodental", "ldental", "labiodent", "labio", "labiod", "labdent", "lbdntl", "ldent", "ldl"], &["round", "rund", "rnd", "rd"],
    &["coronal", "coron", "crnl", "cor"], &["anterior", "anter", "antr", "ant"], &["distributed", "distrib", "dist", "dis", "dst"],
    &["dorsal", "drsl", "dors", "dor"], &["front", "frnt", "fnt", "fro", "frt", "fr"], &["back", "bck", "bk"], &["high", "hgh", "hi"], &["low", "lw", "lo"], &["tense", "tens", "tns", "ten"], &["reduced", "reduc", "redu", "rdcd", "red"],
    &["pharyngeal", "pharyng", "pharyn", "phar", "phr"], &["advancedtongueroot", "a.t.r.", "a.t.r", "a.tr", "at.r", "atr"], &["retractedtongueroot", "r.t.r.", "r.t.r", "r.tr", "rt.r", "rtr"],
    &["long", "lng"], &["overlong", "overlng", "ovrlng", "vlong", "olong", "vlng", "olng"], &["stress", "str"], &["secondarystress", "sec.stress", "secstress", "sec.str.", "sec.str", "secstr", "sec"],
    &["tone", "ton", "tne", "tn"],
];

/// rule templates with a matrix argument `{M}` in every syntactic position that takes one
const POSITIONS: &[(&str, &str)] = &[
    ("input matrix", "[{M}] > [tone:7]"), ("output matrix", "[] > [{M}]"), ("context matrix", "a > e / [{M}] _"), ("exception matrix", "a > e | _ [{M}]"),
    ("IPA parameter", "a:[{M}] > e"), ("group parameter", "V:[{M}] > e"), ("syllable parameter", "%:[{M}] > [tone:7]"), ("structure parameter", "<C V>:[{M}] > [tone:7]"),
    ("variable parameter", "V=1 C > 1:[{M}] / _ #"), ("set member", "{[{M}], k} > {t, p}"), ("optional member", "a > e / ([{M}],0) _ #"), ("output IPA parameter", "k > a:[{M}]"),
];
const ALIAS_POSITIONS: &[(&str, &str, bool)] = &[
    ("romaniser IPA parameter", "a:[{M}] > Я", false), ("romaniser group parameter", "V:[{M}] > +Ю", false), ("romaniser matrix", "[{M}] > Ж", false),
    ("deromaniser IPA parameter", "Я > a:[{M}]", true), ("deromaniser plus matrix", "+Ю > [{M}]", true),
];
const WORDS: &[&str] = &["ˈpa.tiːn", "an.ta51.ka", "kʷe.lo", "ʔaː.hu5", "ˌsa.maˈka", "pak"];
/// words for deromaniser lines (the fresh strings Я / Ю occur in them)
const WORDS_DEROM: &[&str] = &["Яk.saЮ", "ˈpa.tiːn", "taЮ5.Яn"];

fn arg(name: &str, group0: &str) -> String { if group0 == "tone" { format!("{name}:5") } else if ["root", "manner", "laryngeal"].contains(&group0) { format!("α{name}") } else { format!("+{name}") } }

fn outcome_key(r: &api::Guarded<Vec<String>>) -> String { match r { Ok(Ok(v)) => format!("OK {v:?}"), Ok(Err(e)) => format!("ERR {}", api::err_variant(e)), Err(a) => format!("ABN {}", a.signature()) } }

// ---- word respellings -----------------------------------------------------------------------------

const INPUT_ALIASES: &[(char, char)] = &[('ɡ', 'g'), ('ʔ', '?'), ('ǃ', '!'), ('ə', 'ǝ'), ('ɸ', 'φ'), ('ʃ', 'S'), ('ʒ', 'Z'), ('ɕ', 'C'), ('ɢ', 'G'), ('ɴ', 'N'), ('ʙ', 'B'), ('ʀ', 'R'), ('χ', 'X'), ('ʜ', 'H'), ('ɐ', 'A'), ('ɛ', 'E'), ('ɪ', 'I'), ('ɔ', 'O'), ('ʊ', 'U'), ('ʏ', 'Y')];

fn respell_word(w: &GWord, how: usize) -> Option<(String, &'static str)> {
    let canon = w.text();
    let r = match how {
        0 => (canon.replace('ˈ', "'"), "' for ˈ"),
        1 => (canon.replace('ˌ', ","), ", for ˌ"),
        2 => (canon.replace('ː', ":"), ": for ː"),
        3 => (canon.replace("ː.", ";"), "; for ː."),
        4 => { // length mark -> doubled segment (not where the copy would be read together with a following click letter: velar/uvular + click letter is one segment by the manual)
            let gs: Vec<(&String, u8)> = w.sylls.iter().flat_map(|s| s.segs.iter().map(|(g, l)| (g, *l))).collect();
            if gs.iter().any(|g| g.0.chars().next().map(|c| "ʘǀǁǃ‼ǂ".contains(c)).unwrap_or(false)) { return None }
            let mut out = String::new();
            for (i, s) in w.sylls.iter().enumerate() { match s.stress { 1 => out.push('ˈ'), 2 => out.push('ˌ'), _ => if i > 0 { out.push('.') } }
                for (g, len) in &s.segs { for _ in 0..*len { out.push_str(g); } } if s.tone != 0 { out.push_str(&s.tone.to_string()); } }
            (out, "doubled segment for length mark") }
        5 => (canon.replace('\u{0361}', "^"), "^ for the tie bar"),
        6 => (canon.replace('\u{035C}', "^"), "^ for the under-tie"),
        k => { let (ipa, al) = INPUT_ALIASES[(k - 7) % INPUT_ALIASES.len()]; (canon.replace(ipa, &al.to_string()), "input alias letter") }
    };
    if r.0 == canon { None } else { Some(r) }
}

fn renumber_vars(r: &Rule) -> Rule {
    fn el(e: &El) -> El { match e {
        El::Matrix { params, var } => El::Matrix { params: params.clone(), var: var.map(|v| v * 3 + 2) }, El::Group { letter, params, var } => El::Group { letter: *letter, params: params.clone(), var: var.map(|v| v * 3 + 2) },
        El::Syll { params, var } => El::Syll { params: params.clone(), var: var.map(|v| v * 3 + 2) }, El::Struct { items, params, var } => El::Struct { items: items.iter().map(el).collect(), params: params.clone(), var: var.map(|v| v * 3 + 2) },
        El::Var { n, params } => El::Var { n: n * 3 + 2, params: params.clone() }, El::Set(xs) => El::Set(xs.iter().map(el).collect()), El::Opt { items, min, max, form } => El::Opt { items: items.iter().map(el).collect(), min: *min, max: *max, form: *form }, x => x.clone() } }
    let ms = |v: &Vec<El>| v.iter().map(el).collect::<Vec<_>>();
    let side = |s: &Side| match s { Side::Terms(ts) => Side::Terms(ts.iter().map(&ms).collect()), x => x.clone() };
    let env = |e: &Env| Env { before: ms(&e.before), after: ms(&e.after) };
    let spec = |s: &Option<EnvSpec>| s.as_ref().map(|s| match s { EnvSpec::Special(xs) => EnvSpec::Special(ms(xs)), EnvSpec::List(items) => EnvSpec::List(items.iter().map(|it| match it { EnvItem::One(e) => EnvItem::One(env(e)), EnvItem::Set(es) => EnvItem::Set(es.iter().map(&env).collect()) }).collect()) });
    Rule { input: side(&r.input), output: side(&r.output), context: spec(&r.context), except: spec(&r.except), comment: r.comment.clone() }
}

const STYLES: &[&str] = &["arrow =>", "arrow ->", "// for |", "∅ for *", ".. for ...", "… for ...", "⟨⟩ for <>", "spaces inside matrices", "trailing ;; comment", "Latin alpha letters", "last Greek alpha letters", "last Latin alpha letters", "variables renumbered", "// for | and =>"];
fn restyle(r: &Rule, k: usize) -> Option<String> {
    let d = Style::default();
    let base = d.rule(r);
    let s = match k {
        0 => Style { arrow: "=>", ..d }.rule(r), 1 => Style { arrow: "->", ..d }.rule(r), 2 => Style { pipe: "//", ..d }.rule(r), 3 => Style { star: "∅", ..d }.rule(r),
        4 => Style { ellipsis: "..", ..d }.rule(r), 5 => Style { ellipsis: "…", ..d }.rule(r), 6 => Style { angle: ("⟨", "⟩"), ..d }.rule(r), 7 => Style { matrix_space: true, ..d }.rule(r),
        8 => { let mut r2 = r.clone(); r2.comment = Some(" a comment > with / symbols | _ $".into()); d.rule(&r2) }
        9 => Style { latin_alpha: true, ..d }.rule(r), 10 => Style { alpha_rev: true, ..d }.rule(r), 11 => Style { latin_alpha: true, alpha_rev: true, ..d }.rule(r),
        12 => d.rule(&renumber_vars(r)), _ => Style { pipe: "//", arrow: "=>", ..d }.rule(r),
    };
    if s == base { None } else { Some(s) }
}

impl Property for C13 {
    fn id(&self) -> &'static str { "C13" }
    fn rule(&self) -> String {
        "(A) exhaustive synonym × position table: each of the advertised spellings of the 39 feature / node / suprasegmental names (transcribed table, ~180 spellings) in each of 12 syntactic positions of a rule that take a matrix (input, output, context, exception, IPA / group / % / structure / variable / output-IPA parameter, set member, optional member) and 5 positions in romaniser and deromaniser lines, on 6 fixed words: must behave like the first spelling of its group. \
         (B) generated rules (full grammar) printed in the canonical style and in each alternative style that changes the text — `=>`, `->`, `//` for `|` (with and without a preceding context), `∅` for `*`, `..`, `…`, `⟨ ⟩`, spaces inside matrices, a trailing `;;` comment, Latin for Greek alpha letters, renumbered variables — on the same generated word. \
         (C) generated words respelled: `'` `,` `:` `;`, doubled segment for the length mark, `^` for either tie, and each of the 20 input alias letters, under a generated rule; plus, exhaustively, every base grapheme with a tie or an aliased character respelled with `^`, with the alias letters and with both together, at the start, at the end and inside a word. \
         Oracle: both spellings give Ok with equal output strings, or Err of the same variant (positions differ with the spelling). Non-trivial: distinct (construct, position/style, spelling) triples where the call returns Ok and the rule changes the word. Quick: table + 2M random; thorough: table + 20M.".into()
    }
    fn explore(&self, ctx: &mut Ctx) {
        let mut idx = 0usize;
        for group in SYNONYMS { for syn in group.iter().skip(1) {
            for (pname, tpl) in POSITIONS { idx += 1; if idx % ctx.nshards != ctx.shard { continue }
                run_case(self, ctx, json!({"kind": "synonym", "position": pname, "canonical": tpl.replace("{M}", &arg(group[0], group[0])), "respelled": tpl.replace("{M}", &arg(syn, group[0])), "words": WORDS, "spelling": syn})); }
            for (pname, tpl, derom) in ALIAS_POSITIONS { idx += 1; if idx % ctx.nshards != ctx.shard { continue }
                if ["root", "manner", "laryngeal"].contains(&group[0]) { continue }
                run_case(self, ctx, json!({"kind": "alias-synonym", "position": pname, "canonical": tpl.replace("{M}", &arg(group[0], group[0])), "respelled": tpl.replace("{M}", &arg(syn, group[0])), "derom": derom, "words": if *derom { WORDS_DEROM } else { WORDS }, "spelling": syn})); }
        } }
        // every base grapheme that contains a tie or a character with an input alias letter, respelled with `^`, with the alias letters, and with both at once (`t͡ʃ` = `t^ʃ` = `t͡S` = `t^S`)
        for ps in pool().bases.iter() {
            let g = &ps.text;
            let caret = g.replace(['\u{0361}', '\u{035C}'], "^");
            let alias: String = g.chars().map(|c| INPUT_ALIASES.iter().find(|(i, _)| *i == c).map(|(_, a)| *a).unwrap_or(c)).collect();
            let both: String = caret.chars().map(|c| INPUT_ALIASES.iter().find(|(i, _)| *i == c).map(|(_, a)| *a).unwrap_or(c)).collect();
            for (resp, how) in [(caret, "^ for a tie (single grapheme)"), (alias, "input alias letter (single grapheme)"), (both, "^ and input alias letter together (single grapheme)")] {
                if resp == *g { continue }
                for (pre, post) in [("", "a"), ("a", ""), ("a.", "a")] {
                    idx += 1; if idx % ctx.nshards != ctx.shard { continue }
                    run_case(self, ctx, json!({"kind": "word", "style": how, "rule": "a > e", "canonical_word": format!("{pre}{g}{post}"), "respelled_word": format!("{pre}{resp}{post}")}));
                }
            }
        }
        let n = ctx.tier.pick(2_000_000, 20_000_000);
        run_tape_batches(self, ctx, "styles", n, 500, &|t| {
            let wp = if t.chance(1, 3) { WordProfile::RICH } else { WordProfile::PLAIN };
            let gw = gen_word(t, wp);
            let word = gw.text();
            let Ok(Ok(pw)) = api::parse_word(&word) else { return None };
            let mut g = RuleGen::new(RuleProfile { insertion: t.chance(1, 4), ..RuleProfile::FULL }, word_segs(&pw));
            let r = g.rule(t);
            if t.chance(2, 3) {
                let k0 = t.pick(STYLES.len());
                for d in 0..STYLES.len() { let k = (k0 + d) % STYLES.len(); if let Some(s) = restyle(&r, k) { return Some(json!({"kind": "style", "style": STYLES[k], "canonical": rule_text(&r), "respelled": s, "words": [word]})) } }
                None
            } else {
                let k0 = t.pick(27);
                for d in 0..27 { let k = (k0 + d) % 27; if let Some((w2, how)) = respell_word(&gw, k) { return Some(json!({"kind": "word", "style": how, "rule": rule_text(&r), "canonical_word": word, "respelled_word": w2})) } }
                None
            }
        });
    }
    fn check(&self, case: &Value) -> Outcome {
        let kind = case["kind"].as_str().unwrap_or("");
        match kind {
            "synonym" | "style" | "alias-synonym" => {
                let (a, b) = (case["canonical"].as_str().unwrap_or(""), case["respelled"].as_str().unwrap_or(""));
                let words = strs(&case["words"]);
                let run = |r: &str| if kind == "alias-synonym" {
                    let plain = api::groups(&["a > a".to_string()]);
                    if case["derom"].as_bool() == Some(true) { api::run(&plain, &words, &[r.to_string()], &[]) } else { api::run(&plain, &words, &[], &[r.to_string()]) }
                } else { api::run(&api::groups(&[r.to_string()]), &words, &[], &[]) };
                let (ra, rb) = (run(a), run(b));
                if ra.is_err() || rb.is_err() { return Outcome::skip("a call did not return (C02's business)") }
                let (ka, kb) = (outcome_key(&ra), outcome_key(&rb));
                let what = if kind == "style" { format!("style: {}", case["style"].as_str().unwrap_or("")) } else { format!("{}: {}", kind, case["position"].as_str().unwrap_or("")) };
                if ka != kb {
                    let sub = if ka.starts_with("OK") && kb.starts_with("ERR") { format!("respelling is rejected ({})", kb.trim_start_matches("ERR ")) } else if ka.starts_with("ERR") && kb.starts_with("OK") { "only the respelling is accepted".to_string() } else { "different results".to_string() };
                    return Outcome::fail(format!("{what}: {sub}"), json!({"canonical": a, "respelled": b, "words": words, "canonical_result": ka, "respelled_result": kb, "spelling": case["spelling"]}))
                }
                let fired = match (&ra, api::run(&[], &words, &[], &[])) { (Ok(Ok(x)), Ok(Ok(base))) => *x != base, _ => false };
                let o = if fired { Outcome::pass_nt(hash64(&(what.clone(), b))) } else { Outcome::pass() };
                o.with_class(format!("{kind}:{}", if ka.starts_with("OK") { if fired { "ok, fired" } else { "ok, no change" } } else { "err (same variant)" }))
            }
            "word" => {
                let rule = case["rule"].as_str().unwrap_or("");
                let (a, b) = (case["canonical_word"].as_str().unwrap_or(""), case["respelled_word"].as_str().unwrap_or(""));
                let g = api::groups(&[rule.to_string()]);
                let (ra, rb) = (api::run(&g, &[a.to_string()], &[], &[]), api::run(&g, &[b.to_string()], &[], &[]));
                if ra.is_err() || rb.is_err() { return Outcome::skip("a call did not return (C02's business)") }
                let (ka, kb) = (outcome_key(&ra), outcome_key(&rb));
                if ka != kb { return Outcome::fail(format!("word respelling ({}): different results", case["style"].as_str().unwrap_or("")), json!({"rule": rule, "canonical_word": a, "respelled_word": b, "canonical_result": ka, "respelled_result": kb})) }
                if ka.starts_with("OK") { Outcome::pass_nt(hash64(&(case["style"].as_str(), b))) } else { Outcome::pass() }
            }
            _ => Outcome::skip("malformed case"),
        }
    }
}
