//! C01 — same input, same output: across calls, word order and *processes* (each worker has its own std hash seed).

use crate::api;
use crate::core::*;
use crate::gen::*;
use crate::model::*;
use crate::props::c02::{case_groups, strs};
use serde_json::{json, Value};
use std::cell::RefCell;
use std::collections::HashMap;
use std::io::Write;

pub struct C01;

thread_local! { static TRANSCRIPT: RefCell<Vec<(u64, u64, String)>> = const { RefCell::new(Vec::new()) }; }

fn multiplicity() -> &'static HashMap<MSeg, usize> {
    static M: std::sync::OnceLock<HashMap<MSeg, usize>> = std::sync::OnceLock::new();
    M.get_or_init(|| { let mut m = HashMap::new(); for (_, s) in &tables().bases { *m.entry(*s).or_insert(0) += 1; } m })
}

pub fn transcript_of(case: &Value) -> (String, Vec<String>) {
    let groups = case_groups(case);
    let words = strs(&case["words"]); let into = strs(&case["into"]); let from = strs(&case["from"]);
    let r = api::run(&groups, &words, &into, &from);
    let outs = match &r { Ok(Ok(v)) => v.clone(), _ => vec![] };
    let mut t = match &r { Ok(Ok(v)) => format!("OK {v:?}"), Ok(Err(e)) => format!("ERR {e:?}"), Err(a) => format!("ABN {}", a.signature()) };
    if let Some(w0) = words.first() {
        let tr = api::guarded(api::DEFAULT_BUDGET, || asca::get_trace_string(&groups, w0.clone(), &into));
        t.push_str(&match &tr { Ok(Ok(v)) => format!(" | TRACE {v:?}"), Ok(Err(e)) => format!(" | TRACE-ERR {e:?}"), Err(a) => format!(" | TRACE-ABN {}", a.signature()) });
    }
    (t, outs)
}

impl Property for C01 {
    fn id(&self) -> &'static str { "C01" }
    fn rule(&self) -> String {
        "Every worker process (K = 8 quick / 16 thorough, each with its own std hash seed and its own lazily built tables) runs the *same* case list and writes a transcript \
         (Ok strings or Debug of the Err of asca::run, plus get_trace_string of the first phrase); the driver compares the K transcripts case by case. Inside each process: a second call must \
         equal the first, and run(R, reversed/rotated W) must be the same permutation of run(R, W). Cases: (a) generated triples — 1-4 full-grammar rules in 1-2 groups, 1-6 words (40% from the \
         rich pool), optional romaniser set (incl. `+` rules, which go through get_nearest_grapheme) and deromaniser set; (b) tie slice, exhaustive — every base and base+1 diacritic under the empty rule \
         list and under `[] > [+F]` / `[] > [-F]` for all 26 features and `[] > [-node]` for lab/cor/dor/phr/place (quick: every 4th rule per segment, offset by the seed). \
         Non-trivial: the (model-predicted or parsed) output contains a segment whose bundle equals ≥2 base phones or none (needs a tie-break / diacritic composition), or a `+` romaniser is present. \
         The hash seed of a process is chosen by the OS, not by VERIF_SEED: a failure is reproduced by the saved case run in several processes.".into()
    }
    fn assumptions(&self) -> Vec<String> { vec!["distinct worker processes get distinct RandomState seeds from the OS (std behaviour); K processes give a miss probability of about 2^-(K-1) per tie-sensitive input if output depended on the hash order".into()] }
    fn workers(&self, tier: Tier) -> usize { tier.pick(8, 16) }
    fn explore(&self, ctx: &mut Ctx) {
        let real_shard = ctx.shard; let real_n = ctx.nshards;
        ctx.shard = 0; ctx.nshards = 1; // every process generates the same cases
        let n = ctx.tier.pick(6_000, 60_000);
        run_tape_batches(self, ctx, "triples", n, 500, &|t| {
            let nw = 1 + t.pick(6);
            let mut words = vec![]; let mut segs = vec![];
            for _ in 0..nw { let prof = if t.chance(2, 5) { WordProfile::RICH } else { WordProfile::PLAIN }; let w = gen_word(t, prof).text();
                if let Ok(Ok(pw)) = api::parse_word(&w) { segs.extend(word_segs(&pw)); } words.push(w); }
            let ng = 1 + t.weighted(&[3, 1]);
            let mut groups = vec![];
            for _ in 0..ng { let nr = 1 + t.pick(2); let mut rs = vec![]; for _ in 0..nr { let mut g = RuleGen::new(RuleProfile::FULL, segs.clone()); rs.push(rule_text(&g.rule(t))); } groups.push(rs); }
            let (from, plus) = if t.chance(1, 2) { gen_romanisers(t, &segs) } else { (vec![], false) };
            let (into, table) = if t.chance(1, 4) { gen_deromanisers(t) } else { (vec![], vec![]) };
            add_twin_words(t, &mut words);
            if let Some((f, _)) = table.first() { if t.chance(1, 2) { words.push(format!("{f}a")); } }
            Some(json!({"kind": "triple", "groups": groups, "words": words, "into": into, "from": from, "plus": plus}))
        });
        // tie slice
        let p = pool();
        let mut rules: Vec<String> = vec![];
        for f in 0..26 { rules.push(format!("[] > [+{}]", FEATS[f].0)); rules.push(format!("[] > [-{}]", FEATS[f].0)); }
        for n in ["lab", "cor", "dor", "phr", "place"] { rules.push(format!("[] > [-{n}]")); }
        let stride = ctx.tier.pick(4usize, 1usize);
        let mut k = 0usize;
        for ps in p.bases.iter().chain(p.dia1.iter()) {
            run_case(self, ctx, json!({"kind": "tie", "groups": [[]], "words": [ps.text], "into": [], "from": []}));
            for r in &rules {
                k += 1;
                if k % stride != (ctx.seed as usize) % stride { continue }
                run_case(self, ctx, json!({"kind": "tie", "groups": [[r]], "words": [ps.text], "into": [], "from": []}));
            }
        }
        ctx.shard = real_shard; ctx.nshards = real_n;
        // write the transcript of this process
        let path = format!("{VERIF}/target/tmp/C01.{real_shard}.transcript");
        let mut f = std::io::BufWriter::new(std::fs::File::create(&path).expect("transcript file"));
        TRANSCRIPT.with(|t| { for (ch, th, case) in t.borrow().iter() { let _ = writeln!(f, "{ch:016x}\t{th:016x}\t{case}"); } });
        let _ = f.flush();
        ctx.extra.insert("transcript".into(), json!(path));
    }
    fn check(&self, case: &Value) -> Outcome {
        let (t1, outs) = transcript_of(case);
        let (t2, _) = transcript_of(case);
        if t1 != t2 { return Outcome::fail("second call differs from the first in the same process", json!({"first": t1, "second": t2})) }
        // word order: reversed list
        let words = strs(&case["words"]);
        if words.len() >= 2 && t1.starts_with("OK") {
            let mut c2 = case.clone(); let mut rev = words.clone(); rev.reverse(); c2["words"] = json!(rev);
            let groups = case_groups(&c2);
            if let Ok(Ok(mut o2)) = api::run(&groups, &strs(&c2["words"]), &strs(&c2["into"]), &strs(&c2["from"])) {
                o2.reverse();
                if o2 != outs { return Outcome::fail("output depends on the order in which the words are supplied", json!({"forward": outs, "reversed_input_unreversed": o2})) }
            } else { return Outcome::fail("run succeeds on a word list but not on its reversal", json!({"forward": t1})) }
        }
        TRANSCRIPT.with(|t| t.borrow_mut().push((hash64(&case.to_string()), hash64(&t1), case.to_string())));
        // non-triviality
        let mut nt = case["plus"].as_bool().unwrap_or(false) && t1.starts_with("OK");
        if !nt { for o in &outs { for w in o.split(' ') { if let Ok(Ok(pw)) = api::parse_word(w) { if MWord::from_asca(&pw).flat().iter().any(|s| multiplicity().get(s).copied().unwrap_or(0) != 1) { nt = true; } } } } }
        let cls = if t1.starts_with("OK") { "ok" } else if t1.starts_with("ERR") { "err" } else { "abnormal" };
        let o = if nt { Outcome::pass_nt(hash64(&case.to_string())) } else { Outcome::pass() };
        o.with_class(cls).with_class(format!("kind:{}", case["kind"].as_str().unwrap_or("?")))
    }
    fn replay(&self, case: &Value) -> Outcome {
        // in-process part, then the same case in 12 fresh processes
        if let Outcome::Fail { signature, detail } = self.check(case) { return Outcome::Fail { signature, detail } }
        let tmp = format!("{VERIF}/target/tmp/C01.replay.{}.json", std::process::id());
        let _ = std::fs::create_dir_all(format!("{VERIF}/target/tmp"));
        let _ = std::fs::write(&tmp, case.to_string());
        let exe = std::env::current_exe().expect("exe");
        let mut outs: Vec<String> = vec![];
        for _ in 0..12 {
            let o = std::process::Command::new(&exe).args(["c01-transcript", &tmp]).output();
            outs.push(o.map(|o| String::from_utf8_lossy(&o.stdout).to_string()).unwrap_or_default());
        }
        let _ = std::fs::remove_file(&tmp);
        let distinct: std::collections::BTreeSet<&String> = outs.iter().collect();
        if distinct.len() > 1 { return Outcome::fail("output differs between two processes for the same input", json!({"transcripts": distinct})) }
        Outcome::pass()
    }
    fn post(&self, _tier: Tier, _seed: u64, results: &[Value], _extra: &mut std::collections::BTreeMap<String, Value>) -> Vec<(String, Value, Value)> {
        // compare the transcripts of all processes line by line
        let mut files: Vec<String> = results.iter().filter_map(|r| r["extra"]["transcript"].as_str().map(|s| s.to_string())).collect();
        files.sort();
        let mut out = vec![];
        let read = |p: &str| -> Vec<(String, String, String)> { std::fs::read_to_string(p).unwrap_or_default().lines().map(|l| { let mut it = l.splitn(3, '\t'); (it.next().unwrap_or("").to_string(), it.next().unwrap_or("").to_string(), it.next().unwrap_or("").to_string()) }).collect() };
        if files.len() < 2 { out.push(("fewer than two process transcripts to compare".to_string(), json!(null), json!({"files": files}))); return out }
        let base = read(&files[0]);
        for f in &files[1..] {
            let other = read(f);
            if other.len() != base.len() { out.push(("processes generated different case lists (harness determinism)".to_string(), json!(null), json!({"a": base.len(), "b": other.len()}))); continue }
            for (a, b) in base.iter().zip(&other) {
                if a.0 != b.0 { out.push(("processes generated different case lists (harness determinism)".to_string(), json!(null), json!({"a": a.2, "b": b.2}))); break }
                if a.1 != b.1 {
                    let case: Value = serde_json::from_str(&a.2).unwrap_or(json!(null));
                    out.push(("output differs between two processes for the same input".to_string(), case, json!({"process_files": [files[0], f]})));
                    if out.len() >= 5 { break }
                }
            }
            if out.len() >= 5 { break }
        }
        for f in &files { let _ = std::fs::remove_file(f); }
        out
    }
}
