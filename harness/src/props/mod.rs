use crate::core::Property;

pub mod c01;
pub mod c02;
pub mod c03;
pub mod c04;
pub mod c05;
pub mod c06;
pub mod c07;
pub mod c08;
pub mod c09;
pub mod c10;
pub mod c11;
pub mod c12;
pub mod c13;
pub mod c14;
pub mod c15;
pub mod c16;
pub mod c17;
pub mod c18;
pub mod c19;
pub mod c20;

pub fn all() -> Vec<Box<dyn Property>> {
    vec![
        Box::new(c01::C01),
        Box::new(c02::C02),
        Box::new(c03::C03),
        Box::new(c04::C04),
        Box::new(c05::C05),
        Box::new(c06::C06),
        Box::new(c07::C07),
        Box::new(c08::C08),
        Box::new(c09::C09),
        Box::new(c10::C10),
        Box::new(c11::C11),
        Box::new(c12::C12),
        Box::new(c13::C13),
        Box::new(c14::C14),
        Box::new(c15::C15),
        Box::new(c16::C16),
        Box::new(c17::C17),
        Box::new(c18::C18),
        Box::new(c19::C19),
        Box::new(c20::C20),
    ]
}

pub fn probe(args: &[String]) {
    use crate::core::Tape; use crate::gen::*;
    crate::api::init();
    let what = args.first().map(|s| s.as_str()).unwrap_or("rules");
    let n: usize = args.get(1).and_then(|s| s.parse().ok()).unwrap_or(20);
    let mut x: u64 = args.get(2).and_then(|s| s.parse().ok()).unwrap_or(12345);
    for _ in 0..n {
        let tape: Vec<u32> = (0..400).map(|_| { x ^= x << 13; x ^= x >> 7; x ^= x << 17; (x >> 16) as u32 }).collect();
        let mut t = Tape::new(&tape);
        match what {
            "rules" => { let c = c02::gen_structured_case(&mut t, RuleProfile::FULL); println!("{} || {}  => {:?}", c["groups"], c["words"], crate::core::Property::check(&c02::C02, &c)); }
            "mut" => { let c = c02::gen_mutated_case(&mut t); println!("{} || {}", c["groups"], c["words"]); }
            "noise" => { let c = c02::gen_noise_case(&mut t); println!("{}", c); }
            _ => {}
        }
    }
    if what == "bt" {
        std::panic::set_hook(Box::new(|_| { println!("{}", std::backtrace::Backtrace::force_capture()); }));
        let _ = std::panic::catch_unwind(|| asca::run(&[asca::RuleGroup::from_rules(vec!["<... C ə>=1 > [tone:0]".into()])], &["ˈkɡə".to_string()], &[], &[]));
    }
    if what == "survey" {
        // survey <source> <n>: histogram of failure signatures with the shortest example of each (no shrinking)
        let src = args.get(1).map(|s| s.as_str()).unwrap_or("structured");
        let n: usize = args.get(2).and_then(|s| s.parse().ok()).unwrap_or(20000);
        let mut hist: std::collections::BTreeMap<String, (u64, String)> = Default::default();
        let mut fired = 0; let mut ok = 0;
        for _ in 0..n {
            let tape: Vec<u32> = (0..400).map(|_| { x ^= x << 13; x ^= x >> 7; x ^= x << 17; (x >> 16) as u32 }).collect();
            let mut t = Tape::new(&tape);
            let c = match src { "mut" => c02::gen_mutated_case(&mut t), "noise" => c02::gen_noise_case(&mut t), "safe" => c02::gen_structured_case(&mut t, c02::SAFE), _ => c02::gen_structured_case(&mut t, RuleProfile::FULL) };
            match crate::core::Property::check(&c02::C02, &c) {
                crate::core::Outcome::Fail { signature, .. } => { let ex = format!("{} || {}", c["groups"], c["words"]); let e = hist.entry(signature).or_insert((0, ex.clone())); e.0 += 1; if ex.len() < e.1.len() { e.1 = ex; } }
                crate::core::Outcome::Pass { nontrivial, class } => { if nontrivial.is_some() { fired += 1 } if class.iter().any(|c| c == "ok") { ok += 1 } }
                _ => {}
            }
        }
        println!("n={n} ok={ok} fired={fired}");
        for (k, (c, ex)) in &hist { println!("{c:6}  {k}\n        {ex}"); }
    }
}
