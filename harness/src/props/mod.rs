use crate::core::Property;

pub mod c18;

pub fn all() -> Vec<Box<dyn Property>> {
    vec![
        Box::new(c18::C18),
    ]
}

pub fn probe(_args: &[String]) {}
