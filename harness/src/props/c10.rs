//! C10 — rule lists compose: running in stages equals running all at once; grouping is irrelevant.

use crate::api;
use crate::core::*;
use crate::gen::*;
use crate::model::*;
use crate::props::c02::strs;
use crate::props::c08::invariant_violation;
use asca::RuleGroup;
use serde_json::{json, Value};
use std::sync::OnceLock;

pub struct C10;

/// the shipped Indo-European example project: (file, groups as (name, rules)) and the example word lists
fn shipped() -> &'static (Vec<(String, Vec<(String, Vec<String>)>)>, Vec<String>) {
    static S: OnceLock<(Vec<(String, Vec<(String, Vec<String>)>)>, Vec<String>)> = OnceLock::new();
    S.get_or_init(|| {
        fn walk(dir: &std::path::Path, out: &mut Vec<std::path::PathBuf>) { if let Ok(rd) = std::fs::read_dir(dir) { let mut es: Vec<_> = rd.filter_map(|e| e.ok()).map(|e| e.path()).collect(); es.sort(); for p in es { if p.is_dir() { walk(&p, out) } else { out.push(p) } } } }
        let mut files = vec![]; walk(std::path::Path::new("/repo/examples/indo-european"), &mut files);
        let mut projects = vec![]; let mut words = vec![];
        for f in &files {
            let Ok(txt) = std::fs::read_to_string(f) else { continue };
            match f.extension().and_then(|x| x.to_str()) {
                Some("rsca") => {
                    // documented format: `@ name`, indented rule lines, `#` description lines
                    let mut groups: Vec<(String, Vec<String>)> = vec![];
                    for line in txt.lines() {
                        let tr = line.trim();
                        if let Some(name) = tr.strip_prefix('@') { groups.push((name.trim().to_string(), vec![])); }
                        else if tr.starts_with('#') || tr.is_empty() { continue }
                        else if let Some(g) = groups.last_mut() { g.1.push(tr.to_string()); }
                    }
                    projects.push((f.display().to_string(), groups));
                }
                Some("wsca") if !f.display().to_string().contains("/out/") => for line in txt.lines() { let l = line.split('#').next().unwrap_or("").trim(); if !l.is_empty() { words.push(l.to_string()); } },
                _ => {}
            }
        }
        (projects, words)
    })
}

fn to_groups(gs: &[Vec<String>]) -> Vec<RuleGroup> { gs.iter().enumerate().map(|(i, r)| RuleGroup { name: format!("g{i}"), rule: r.clone(), description: String::new() }).collect() }

impl Property for C10 {
    fn id(&self) -> &'static str { "C10" }
    fn rule(&self) -> String {
        "Histories: (a) generated sequences r1..rn (n ≤ 8; full-grammar and prosody-biased generators) on generated words, for every split point k and one random regrouping into rule groups with empty groups interleaved; \
         (b) every .rsca file of the shipped Indo-European example project (its rule groups in order) on the project's word lists, every split point between groups, and all rules flattened into one group. \
         Oracle (public API): run(r1..rn)(w), run(rk+1..rn)(run(r1..rk)(w)) and run(regrouped)(w) agree — all Ok with equal strings or all Err — whenever the intermediate text contains no �. \
         A divergence whose intermediate word (obtained structurally, for the diagnosis only) violates C08's invariants or does not round-trip through render/parse (C09) is attributed to those listed findings; anything else is a violation. \
         Non-trivial: both halves of some split change the word. Quick 500k sequences (× all splits), thorough 6M.".into()
    }
    fn explore(&self, ctx: &mut Ctx) {
        // (b) shipped project
        let (projects, words) = shipped();
        let mut idx = 0usize;
        for (file, groups) in projects {
            for wchunk in words.chunks(8) {
                idx += 1; if idx % ctx.nshards != ctx.shard { continue }
                run_case(self, ctx, json!({"kind": "shipped", "file": file, "rules": groups.iter().map(|g| g.1.clone()).collect::<Vec<_>>(), "words": wchunk}));
            }
        }
        let n = ctx.tier.pick(500_000, 6_000_000);
        run_tape_batches(self, ctx, "sequences", n, 700, &|t| {
            let wp = if t.chance(1, 4) { WordProfile::RICH } else { WordProfile::PLAIN };
            let word = gen_word(t, wp).text();
            let segs = match api::parse_word(&word) { Ok(Ok(pw)) => word_segs(&pw), _ => return None };
            let nr = 2 + t.weighted(&[4, 4, 3, 2, 1, 1, 1]);
            let mut rules = vec![];
            for _ in 0..nr {
                rules.push(match t.weighted(&[5, 3]) {
                    0 => { let mut g = RuleGen::new(RuleProfile { insertion: t.chance(1, 3), ..RuleProfile::FULL }, segs.clone()); rule_text(&g.rule(t)) }
                    _ => { let a = if segs.is_empty() { "a".to_string() } else { segs[t.pick(segs.len())].0.clone() };
                           match t.pick(6) { 0 => format!("{a} > {}", pick_seg(t, 10).text), 1 => format!("{a} > * / _ #"), 2 => format!("{a} > [+long]"), 3 => format!("{a} > [{}{}]", if t.chance(1, 2) { "+" } else { "-" }, FEATS[t.pick(26)].0), 4 => format!("% > [tone:{}]", [5, 51, 214][t.pick(3)]), _ => format!("{a} > {a}$ / _ C") } }
                });
            }
            // notation that lives in the parsed word only: a word typed with `;` or with Americanist letters, and a rule that creates a segment
            // which has an Americanist spelling — printing and re-reading the intermediate word must not change what the last stage prints
            let mut word = word;
            if t.chance(1, 6) {
                let a = if segs.is_empty() { "a".to_string() } else { segs[t.pick(segs.len())].0.clone() };
                let x = ["ɬ", "ɲ", "t͡s", "t͡ɬ", "d͡ɮ"][t.pick(5)];
                let at = t.pick(rules.len() + 1);
                rules.insert(at, format!("{a} > {x}"));
                if !word.contains(['*', '%']) { word = match t.pick(3) { 0 => format!("ka;{word}"), 1 => format!("{}a.{word}", ["ł", "ñ", "¢", "ƛ", "λ"][t.pick(5)]), _ => word }; }
            }
            // a regrouping: cut points and empty groups
            let mut regroup: Vec<Vec<String>> = vec![vec![]];
            for r in &rules {
                if t.chance(1, 3) { regroup.push(vec![]); if t.chance(1, 4) { regroup.push(vec![]); } }
                // blank and comment-only lines inside a group apply nothing and end nothing
                if t.chance(1, 6) { regroup.last_mut().unwrap().push(["", "   ", ";; a note", "\t;; x > y"][t.pick(4)].to_string()); }
                regroup.last_mut().unwrap().push(r.clone());
            }
            Some(json!({"kind": "generated", "rules": [rules], "regroup": regroup, "words": [word]}))
        });
    }
    fn check(&self, case: &Value) -> Outcome {
        // "rules" is a list of groups; the flat sequence of *groups* is what gets split for shipped projects, the flat sequence of rules for generated ones
        let groups_in: Vec<Vec<String>> = case["rules"].as_array().map(|a| a.iter().map(strs).collect()).unwrap_or_default();
        let words = strs(&case["words"]);
        let units: Vec<Vec<String>> = if case["kind"] == "shipped" { groups_in.clone() } else { groups_in.concat().into_iter().map(|r| vec![r]).collect() };
        let run = |gs: &[Vec<String>], ws: &[String]| api::run(&to_groups(gs), ws, &[], &[]);
        let full = match run(&units, &words) { Err(_) => return Outcome::skip("a call did not return (C02's business)"), Ok(r) => r };
        let key = |r: &Result<Vec<String>, asca::Error>| match r { Ok(v) => format!("OK {v:?}"), Err(_) => "ERR".to_string() };
        let mut nontrivial = false;
        // regroupings
        let mut variants: Vec<(&str, Vec<Vec<String>>)> = vec![("one group", vec![units.concat()])];
        if let Some(rg) = case["regroup"].as_array() { variants.push(("regrouped", rg.iter().map(strs).collect())); }
        for (name, v) in &variants {
            match run(v, &words) { Err(_) => return Outcome::skip("a call did not return (C02's business)"),
                Ok(r) => if key(&r) != key(&full) { return Outcome::fail("regrouping the same rules changes the result", json!({"variant": name, "rules": units, "regrouped": v, "words": words, "at_once": key(&full), "regrouped_result": key(&r)})) } }
        }
        // split points
        for k in 1..units.len() {
            let first = match run(&units[..k], &words) { Err(_) => return Outcome::skip("a call did not return (C02's business)"), Ok(r) => r };
            let staged = match &first {
                Err(_) => Err(()),
                Ok(mid) => { if mid.iter().any(|m| m.contains('�')) { continue } match run(&units[k..], mid) { Err(_) => return Outcome::skip("a call did not return (C02's business)"), Ok(r) => r.map_err(|_| ()) } }
            };
            let staged_key = match &staged { Ok(v) => format!("OK {v:?}"), Err(_) => "ERR".to_string() };
            if staged_key != key(&full) {
                // when the first stage fails the whole run fails too (checked by the keys); otherwise diagnose the intermediate word structurally
                let mut sig = "staged run differs from running all at once".to_string();
                // the two results are the same words in two notations (Americanist letters vs IPA)?
                let plain = |v: &str| v.replace('ł', "ɬ").replace('ñ', "ɲ").replace('¢', "t͡s").replace('ƛ', "t͡ɬ").replace('λ', "d͡ɮ");
                if let (Ok(a), Ok(b)) = (&full, &staged) { if a.iter().map(|x| plain(x)).collect::<Vec<_>>() == b.iter().map(|x| plain(x)).collect::<Vec<_>>() {
                    sig = if words.iter().any(|w| w.contains(['ł', 'ñ', '¢', 'ƛ', 'λ'])) { "staged run differs only in notation: the input word is written with Americanist letters".into() }
                          else { "staged run differs only in notation although the input word is plain IPA".into() };
                } }
                if let (true, Ok(mid)) = (sig.starts_with("staged run differs from"), &first) {
                    for (w, m) in words.iter().zip(mid) { for (wp, _) in w.split(' ').zip(m.split(' ')) {
                        if let Ok(Ok(pw)) = api::parse_word(wp) { if let Ok(Ok(states)) = api::apply_groups(&to_groups(&units[..k]), &pw) { if let Some(st) = states.last() {
                            if let Some(v) = invariant_violation(st) {
                                // only a listed C08 finding is an accepted cause
                                let c08sig = format!("{v} after {}", crate::props::c08::group_tag(&units[..k].concat()));
                                if is_known("C08", &c08sig) { sig = "consequence of a listed C08 finding: the intermediate word is ill-formed".into(); }
                            } else if let Outcome::Fail { signature, .. } = crate::props::c09::roundtrip(&MWord::from_asca(st), &json!(null)) {
                                // a single segment that does not read back on its own (listed under C09, or a bundle beyond C09's enumerated base+2-diacritic space), or a listed word-level finding
                                if is_known("C09", &signature) || signature.starts_with("bundle:") { sig = "consequence of a listed C09 finding: the intermediate word does not round-trip".into(); }
                            }
                        } } }
                    } }
                }
                return Outcome::fail(sig, json!({"split": k, "rules": units, "words": words, "intermediate": first.as_ref().ok(), "at_once": key(&full), "staged": staged_key}))
            }
            if let (Ok(mid), Ok(fin)) = (&first, &full) { if let Ok(Ok(base)) = api::run(&[], &words, &[], &[]) { if *mid != base && fin != mid { nontrivial = true; } } }
        }
        let o = if nontrivial { Outcome::pass_nt(hash64(&case.to_string())) } else { Outcome::pass() };
        o.with_class(format!("kind:{}", case["kind"].as_str().unwrap_or("?")))
    }
}
