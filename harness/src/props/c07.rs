//! C07 — variables and alphas reproduce exactly what they captured.

use crate::api;
use crate::core::*;
use crate::gen::*;
use crate::model::*;
use serde_json::{json, Value};

pub struct C07;

pub fn restate_rule(t: &mut Tape, segs: Vec<(String, MSeg)>) -> Rule {
    let mut g = RuleGen::new(RuleProfile { insertion: false, variables: false, ..RuleProfile::FULL }, segs);
    let k = 1 + t.weighted(&[5, 3, 2]);
    let mut input = vec![]; let mut output = vec![];
    for i in 0..k {
        let v = Some(i as u32 + 1);
        let e = match t.weighted(&[4, 3, 2, 2, 1]) {
            0 => { let save = g.prof.alphas; g.prof.alphas = t.chance(1, 4); let tgt = None::<&MSeg>; let params = g.params(t, tgt, Where::Input, true); g.prof.alphas = save; El::Matrix { params, var: v } }
            1 => { let e = g.seg_el(t, Where::Input); match e { El::Group { letter, params, .. } => El::Group { letter, params, var: v }, El::Matrix { params, .. } => El::Matrix { params, var: v }, _ => El::Matrix { params: Params::default(), var: v } } }
            2 => El::Matrix { params: Params::default(), var: v },
            3 => match g.syll_el(t, Where::Input) { El::Syll { params, .. } => El::Syll { params, var: v }, x => x },
            _ => match g.struct_el(t, Where::Input) { El::Struct { items, params, .. } => El::Struct { items, params, var: v }, x => x },
        };
        input.push(e); output.push(El::Var { n: i as u32 + 1, params: None });
    }
    g.prof.variables = false;
    let context = if t.chance(2, 3) { Some(g.env_spec(t, 1, false)) } else { None };
    let except = if t.chance(1, 5) { Some(g.env_spec(t, 1, false)) } else { None };
    Rule { input: Side::Terms(vec![input]), output: Side::Terms(vec![output]), context, except, comment: None }
}

const ALPHA_NAMES: [&str; 35] = ["cons", "son", "syll", "cont", "approx", "lat", "nasal", "delrel", "strid", "rhotic", "click", "voice", "sg", "cg", "labdent", "round", "ant", "dist", "front", "back", "high", "low", "tense", "red", "atr", "rtr",
    "lab", "cor", "dor", "phr", "place", "long", "overlong", "stress", "secstress"];

fn neighbour_model(w: &MWord, a: &MSeg, b: &MSeg, x: &dyn Fn(&MSeg) -> bool) -> Option<MWord> {
    // `A > B / X=1 _ 1`: left neighbour (already rewritten) matches X and the right neighbour equals it
    let mut flat = w.flat();
    let syl: Vec<usize> = w.sylls.iter().enumerate().flat_map(|(i, s)| std::iter::repeat(i).take(s.segs.len())).collect();
    let adj = |f: &Vec<MSeg>| (1..f.len()).any(|k| syl[k] == syl[k - 1] && f[k] == f[k - 1]);
    if adj(&flat) { return None }
    for i in 0..flat.len() {
        if flat[i] == *a && i > 0 && i + 1 < flat.len() && x(&flat[i - 1]) && flat[i + 1] == flat[i - 1] { flat[i] = *b; if adj(&flat) { return None } }
    }
    let mut out = w.clone(); let mut k = 0;
    for sy in out.sylls.iter_mut() { for s in sy.segs.iter_mut() { *s = flat[k]; k += 1; } }
    Some(out)
}

impl Property for C07 {
    fn id(&self) -> &'static str { "C07" }
    fn rule(&self) -> String {
        "(a) restating rules `X1=1 … Xk=k > 1 … k` (k ≤ 3; Xi ∈ matrix (some with alphas), group, `[]`, `%`(+stress/tone parameters), structure) with environments and exceptions from the full grammar, on generated words with long segments, tones, both stresses, rich-pool segments: the structural result must equal the input (quick 2M, thorough 20M). \
         (b) exhaustive alpha identities: `[αF] > [αF]`, `[-αF] > [-αF]` for the 26 features, 5 nodes, long, overlong, stress, sec.stress and `%:[αstress] > [αstress]`, `%:[αsecstress] > [αsecstress]` over every base and base+1-diacritic segment (alone and inside `pa.S.ta`) and over the 36 suprasegmental states of C05: result == input. \
         (c) `A > B / X=1 _ 1` for A,B literals and X ∈ {[], C, V, [+voice], [-cont]} on all words ≤4 segments over {p,t,a,i} in every syllabification and random words, against a 10-line neighbour model (left neighbour, as already rewritten, matches X and the right neighbour is bundle-identical); `A > B / %=1 _ 1` against the syllable version (A alone in its syllable between two identical syllables); `a > i / <[] []>=1 _ 1`, `a > i / <C V>=1 _ 1` on all `XY.a.ZW` and `% > 1 / <..>=1 _` on all `XY.ZW` over {p,t,a,i} (a structure bound in the before-context, which is matched on the reversed word, must be captured in reading order); the same with `%=1`, and with the two syllables carrying equal or different tones / secondary stress (a reference matches only a syllable that also agrees in tone and stress). \
         Non-trivial: the rule's input matched at least once (observed with a marker rule of the same input and environment) for (a); the state/segment is one on which the alpha binds for (b); the model predicts a change for (c).".into()
    }
    fn explore(&self, ctx: &mut Ctx) {
        let n = ctx.tier.pick(2_000_000, 20_000_000);
        run_tape_batches(self, ctx, "restate", n, 400, &|t| {
            let prof_w = if t.chance(4, 10) { WordProfile::RICH } else { WordProfile::PLAIN };
            let word = gen_word(t, prof_w).text();
            let Ok(Ok(pw)) = api::parse_word(&word) else { return None };
            let r = restate_rule(t, word_segs(&pw));
            // marker: same input and environment, visible output
            let mut marker = r.clone();
            if let Side::Terms(ts) = &r.input { marker.output = Side::Terms(vec![ts[0].iter().map(|e| match e { El::Syll { .. } | El::Struct { .. } => El::Matrix { params: Params { args: vec![], tone: Some(7) }, var: None }, _ => El::Ipa { text: "ʘ".into(), params: None } }).collect()]); }
            Some(json!({"kind": "restate", "rule": rule_text(&r), "marker": rule_text(&marker), "word": word}))
        });
        // (b) alpha identities, exhaustive
        let p = pool();
        let mut idx = 0usize;
        for ps in p.bases.iter().chain(p.dia1.iter()) { for word in [ps.text.clone(), format!("pa.{}.ta", ps.text)] {
            idx += 1; if idx % ctx.nshards != ctx.shard { continue }
            for name in ALPHA_NAMES { for v in 0..3 { if v == 2 && !name.ends_with("stress") { continue } run_case(self, ctx, json!({"kind": "alpha", "word": word, "name": name, "variant": v})); } }
        } }
        for len in 1..=3 { for stress in ["", "ˈ", "ˌ"] { for tone in ["", "5", "51", "1234"] { for posn in 0..3 {
            idx += 1; if idx % ctx.nshards != ctx.shard { continue }
            let a = format!("a{}", "ː".repeat(len - 1));
            let body = match posn { 0 => format!("{a}p"), 1 => format!("p{a}p"), _ => format!("p{a}") };
            for name in ALPHA_NAMES { for v in 0..3 { if v == 2 && !name.ends_with("stress") { continue } run_case(self, ctx, json!({"kind": "alpha", "name": name, "variant": v, "word": format!("ti{}{body}{tone}.ku", if stress.is_empty() { "." } else { stress })})); } }
        } } } }
        // (c) neighbour model, exhaustive over small words + random words
        let xs = ["[]", "C", "V", "[+voice]", "[-cont]"];
        for (a, b) in [("a", "i"), ("p", "t"), ("a", "p"), ("t", "a")] { for x in xs { idx += 1; if idx % ctx.nshards != ctx.shard { continue }
            run_case(self, ctx, json!({"kind": "neighbour", "a": a, "b": b, "x": x, "words": "all4"})); } }
        for (a, b) in [("a", "i"), ("p", "t")] { idx += 1; if idx % ctx.nshards != ctx.shard { continue } run_case(self, ctx, json!({"kind": "syll-neighbour", "a": a, "b": b, "words": "all4"})); }
        for kind in ["struct-neighbour", "struct-copy"] { for st in ["<[] []>", "<C V>", "%"] { idx += 1; if idx % ctx.nshards != ctx.shard { continue } run_case(self, ctx, json!({"kind": kind, "st": st})); } }
    }
    fn check(&self, case: &Value) -> Outcome {
        match case["kind"].as_str().unwrap_or("") {
            "restate" => {
                let rule = case["rule"].as_str().unwrap_or(""); let word = case["word"].as_str().unwrap_or("");
                let w = match api::parse_word(word) { Ok(Ok(w)) => w, _ => return Outcome::skip("word does not parse") };
                let mw = MWord::from_asca(&w);
                match api::apply_rules(&[rule.to_string()], &w) {
                    Err(_) => Outcome::skip("call did not return (C02's business)"),
                    // every variable a restating rule writes back was bound by its own input: "unknown variable / alpha" means a capture was lost on the way
                    Ok(Err(e)) => { let v = api::err_variant(&e);
                        if v == "RuleRun(UnknownVariable)" { Outcome::fail("restating rule: a variable bound by the input is unknown when it is written back", json!({"rule": rule, "word": word, "error": format!("{e:?}")})) }
                        else { Outcome::skip(&format!("Err:{v}")) } }
                    Ok(Ok(g)) => {
                        let g = MWord::from_asca(&g);
                        if g != mw { return Outcome::fail("restating rule changed the word", json!({"rule": rule, "word": word, "before": mw.show(), "after": g.show()})) }
                        let fired = matches!(api::apply_rules(&[case["marker"].as_str().unwrap_or("").to_string()], &w), Ok(Ok(m)) if MWord::from_asca(&m) != mw);
                        if fired { Outcome::pass_nt(hash64(&(rule, word))) } else { Outcome::pass() }
                    }
                }
            }
            "alpha" => {
                let word = case["word"].as_str().unwrap_or("");
                let w = match api::parse_word(word) { Ok(Ok(w)) => w, _ => return Outcome::skip("word does not parse") };
                let mw = MWord::from_asca(&w);
                let only = case["name"].as_str().unwrap_or("");
                for name in ALPHA_NAMES.iter().copied().filter(|n| only.is_empty() || *n == only) { for (vi, (neg, on_syll)) in [(false, false), (true, false), (false, true)].into_iter().enumerate() {
                    if let Some(v) = case["variant"].as_u64() { if v as usize != vi { continue } }
                    if on_syll && !(name == "stress" || name == "secstress") { continue }
                    let a = if neg { "-α" } else { "α" };
                    let rule = if on_syll { format!("%:[{a}{name}] > [{a}{name}]") } else { format!("[{a}{name}] > [{a}{name}]") };
                    match api::apply_rules(&[rule.clone()], &w) {
                        Err(ab) => return Outcome::fail(format!("alpha identity|{name}|{}", ab.signature()), json!({"rule": rule, "word": word})),
                        Ok(Err(e)) => { if !(neg && ["lab", "cor", "dor", "phr", "place"].contains(&name)) { return Outcome::fail(format!("alpha identity|{name}|error"), json!({"rule": rule, "word": word, "error": format!("{e:?}")})) } }
                        Ok(Ok(g)) => { let g = MWord::from_asca(&g); if g != mw {
                            let what = if name == "stress" || name == "secstress" { format!("{name} on a {} syllable", ["unstressed", "primary", "secondary"][mw.sylls.iter().zip(&g.sylls).find(|(x, y)| x.stress != y.stress).map(|(x, _)| x.stress as usize).unwrap_or(0)]) } else { name.to_string() };
                            return Outcome::fail(format!("alpha identity|{}{}", if on_syll { "%:" } else { "" }, what), json!({"rule": rule, "word": word, "before": mw.show(), "after": g.show()})) } }
                    }
                } }
                Outcome::pass_nt(hash64(&(word, only, case["variant"].as_u64())))
            }
            kind @ ("neighbour" | "syll-neighbour") => {
                let a = tables().by_name[case["a"].as_str().unwrap_or("a")]; let b = tables().by_name[case["b"].as_str().unwrap_or("i")];
                let x = case["x"].as_str().unwrap_or("[]");
                let xm: Box<dyn Fn(&MSeg) -> bool> = match x { "[]" => Box::new(|_| true), "C" => Box::new(|s| group_matches('C', s)), "V" => Box::new(|s| group_matches('V', s)), "[+voice]" => Box::new(|s| s.matches(fidx("voice"), true)), _ => Box::new(|s| s.matches(fidx("cont"), false)) };
                let rule = if kind == "neighbour" { format!("{} > {} / {x}=1 _ 1", case["a"].as_str().unwrap(), case["b"].as_str().unwrap()) } else { format!("{} > {} / %=1 _ 1", case["a"].as_str().unwrap(), case["b"].as_str().unwrap()) };
                let mut changed = false;
                for text in crate::props::c03::all_words(4) {
                    let Ok(Ok(w)) = api::parse_word(&text) else { continue };
                    let mw = MWord::from_asca(&w);
                    let expect = if kind == "neighbour" { neighbour_model(&mw, &a, &b, &*xm) } else {
                        let mut e = mw.clone();
                        if e.sylls.iter().any(|s| s.segs.windows(2).any(|p| p[0] == p[1])) { None } else {
                            for i in 1..e.sylls.len().saturating_sub(1) { if e.sylls[i].segs == vec![a] && e.sylls[i - 1] == e.sylls[i + 1] { e.sylls[i].segs[0] = b; } }
                            Some(e)
                        }
                    };
                    let Some(expect) = expect else { continue };
                    match api::apply_rules(&[rule.clone()], &w) {
                        Err(ab) => return Outcome::fail(format!("{kind}|{}", ab.signature()), json!({"rule": rule, "word": text})),
                        Ok(Err(e)) => return Outcome::fail(format!("{kind}|error"), json!({"rule": rule, "word": text, "error": format!("{e:?}")})),
                        Ok(Ok(g)) => { let g = MWord::from_asca(&g); if g != expect { return Outcome::fail(format!("{kind}|variable in the context matched a non-identical element or missed an identical one"), json!({"rule": rule, "word": text, "expected": expect.show(), "got": g.show()})) } if expect != mw { changed = true; } }
                    }
                }
                if changed { Outcome::pass_nt(hash64(&rule)) } else { Outcome::pass() }
            }
            kind @ ("struct-neighbour" | "struct-copy") => {
                // a structure bound to a variable in the before-context (matched on the reversed word) must be captured in reading order:
                // `a > i / <..>=1 _ 1` fires exactly between identical syllables, `% > 1 / <..>=1 _` copies the syllable as it is written
                let st = case["st"].as_str().unwrap_or("<[] []>");
                let t = tables(); let (a, b) = (t.by_name["a"], t.by_name["i"]);
                let letters = ["p", "t", "a", "i"];
                let pairs: Vec<(String, Vec<MSeg>)> = letters.iter().flat_map(|x| letters.iter().filter(move |y| *y != x).map(move |y| (format!("{x}{y}"), vec![t.by_name[*x], t.by_name[*y]]))).collect();
                let fits = |x: &[MSeg]| st != "<C V>" || (group_matches('C', &x[0]) && group_matches('V', &x[1]));  // `%` and `<[] []>` fit every two-segment syllable
                let rule = if kind == "struct-neighbour" { format!("a > i / {st}=1 _ 1") } else { format!("% > 1 / {st}=1 _") };
                let mut changed = false;
                // decorations of the two syllables (tone / secondary stress): a captured syllable equals another one only if tone and stress agree as well
                let decos: [(&str, &str); 6] = [("", ""), ("5", ""), ("", "5"), ("5", "5"), ("5", "51"), ("", "ˌ")];
                for (xt, xs) in &pairs { for (yt, ys) in &pairs { for (dl, dr) in decos {
                    if kind == "struct-copy" && !(dl.is_empty() && dr.is_empty()) { continue }
                    let (rs, rt) = if dr == "ˌ" { ("ˌ", "") } else { (".", dr) };
                    let text = if kind == "struct-neighbour" { format!("{xt}{dl}.a{rs}{yt}{rt}") } else { format!("{xt}.{yt}") };
                    let Ok(Ok(w)) = api::parse_word(&text) else { continue };
                    let mw = MWord::from_asca(&w);
                    let mut expect = mw.clone();
                    if kind == "struct-neighbour" { if xs == ys && dl == dr && fits(xs) { expect.sylls[1].segs = vec![b]; } } else if fits(xs) { expect.sylls[1].segs = xs.clone(); }
                    let _ = a;
                    match api::apply_rules(&[rule.clone()], &w) {
                        Err(ab) => return Outcome::fail(format!("{kind}|{}", ab.signature()), json!({"rule": rule, "word": text})),
                        Ok(Err(e)) => return Outcome::fail(format!("{kind}|error"), json!({"rule": rule, "word": text, "error": format!("{e:?}")})),
                        Ok(Ok(g)) => { let g = MWord::from_asca(&g); if g != expect { return Outcome::fail(format!("{kind}|structure variable bound in the before-context does not reproduce the syllable it matched"), json!({"rule": rule, "word": text, "expected": expect.show(), "got": g.show()})) } if expect != mw { changed = true; } }
                    }
                } } }
                if changed { Outcome::pass_nt(hash64(&rule)) } else { Outcome::pass() }
            }
            _ => Outcome::skip("malformed case"),
        }
    }
}
