//! C15 — aliases change notation, never the sound changes.

use crate::api;
use crate::core::*;
use crate::gen::*;
use crate::model::*;
use crate::props::c02::strs;
use serde::{Deserialize, Serialize};
use serde_json::{json, Value};

pub struct C15;

#[derive(Clone, Debug, Serialize, Deserialize)]
enum RIn { Ipa(Vec<String>), Group(char), Matrix(Vec<(usize, bool)>), Bound, Seq(Vec<RIn>), IpaLen(String, Option<bool>, Option<bool>), IpaStress(String, Option<bool>, Option<bool>), GroupLen(char, Option<bool>, Option<bool>) }
#[derive(Clone, Debug, Serialize, Deserialize)]
enum ROut { Repl(String), Plus(String), Empty }

fn rin_text(i: &RIn) -> String { match i { RIn::GroupLen(c, l, o) => { let mut a = vec![]; if let Some(b) = l { a.push(format!("{}long", if *b { "+" } else { "-" })); } if let Some(b) = o { a.push(format!("{}overlong", if *b { "+" } else { "-" })); } format!("{c}:[{}]", a.join(",")) } RIn::IpaStress(g, st, se) => { let mut a = vec![]; if let Some(b) = st { a.push(format!("{}stress", if *b { "+" } else { "-" })); } if let Some(b) = se { a.push(format!("{}sec.stress", if *b { "+" } else { "-" })); } format!("{g}:[{}]", a.join(",")) } RIn::IpaLen(g, l, o) => { let mut a = vec![]; if let Some(b) = l { a.push(format!("{}long", if *b { "+" } else { "-" })); } if let Some(b) = o { a.push(format!("{}overlong", if *b { "+" } else { "-" })); } format!("{g}:[{}]", a.join(",")) } RIn::Ipa(v) => v.concat(), RIn::Group(c) => c.to_string(), RIn::Matrix(fs) => format!("[{}]", fs.iter().map(|(f, b)| format!("{}{}", if *b { "+" } else { "-" }, FEATS[*f].0)).collect::<Vec<_>>().join(",")), RIn::Bound => "$".into(), RIn::Seq(xs) => xs.iter().map(rin_text).collect::<Vec<_>>().join(" ") } }
fn rout_text(o: &ROut) -> String { match o { ROut::Repl(s) => s.clone(), ROut::Plus(s) => format!("+{s}"), ROut::Empty => "*".into() } }

/// the harness's rewrite of the default rendering by a romaniser table (first matching transformation per position)
fn model_render(w: &MWord, table: &[(RIn, ROut)]) -> Option<String> {
    let t = tables();
    let g = |s: &MSeg| t.by_value.get(s).cloned();
    let mut buf = String::new();
    for (i, sy) in w.sylls.iter().enumerate() {
        match sy.stress { 1 => buf.push('ˈ'), 2 => buf.push('ˌ'), _ => if i > 0 { buf.push('.') } }
        let mut j = 0;
        'outer: while j < sy.segs.len() {
            if j != 0 && sy.segs[j] == sy.segs[j - 1] { buf.push('ː'); j += 1; continue }
            for (inp, out) in table {
                // number of positions an input consumes at `at`, or None
                fn consume(inp: &RIn, segs: &[MSeg], at: usize, stress: u8) -> Option<usize> {
                    let t = tables();
                    match inp {
                        RIn::Bound => None,
                        // a length modifier makes the entry stand for the whole long segment: [-long] short, [+long] at least long, [+overlong] overlong, [-overlong] at most long
                        RIn::GroupLen(c, l, o) => {
                            if at >= segs.len() || !group_matches(*c, &segs[at]) { return None }
                            let n = segs[at..].iter().take_while(|x| **x == segs[at]).count();
                            let ok = l.map(|b| if b { n >= 2 } else { n == 1 }).unwrap_or(true) && o.map(|b| if b { n >= 3 } else { n <= 2 }).unwrap_or(true);
                            if ok { Some(n) } else { None }
                        }
                        RIn::IpaLen(g, l, o) => {
                            if at >= segs.len() || t.by_name.get(g) != Some(&segs[at]) { return None }
                            let n = segs[at..].iter().take_while(|x| **x == segs[at]).count();
                            let ok = l.map(|b| if b { n >= 2 } else { n == 1 }).unwrap_or(true) && o.map(|b| if b { n >= 3 } else { n <= 2 }).unwrap_or(true);
                            if ok { Some(n) } else { None }
                        }
                        // [+stress] primary or secondary, [-stress] unstressed, [+sec.stress] secondary only, [-sec.stress] not secondary
                        RIn::IpaStress(g, st, se) => {
                            if at >= segs.len() || t.by_name.get(g) != Some(&segs[at]) { return None }
                            let ok = st.map(|b| (stress != 0) == b).unwrap_or(true) && se.map(|b| (stress == 2) == b).unwrap_or(true);
                            if ok { Some(1) } else { None }
                        }
                        RIn::Ipa(gs) => if at + gs.len() <= segs.len() && gs.iter().enumerate().all(|(k, x)| t.by_name.get(x) == Some(&segs[at + k])) { Some(gs.len()) } else { None },
                        RIn::Group(c) => if at < segs.len() && group_matches(*c, &segs[at]) { Some(1) } else { None },
                        RIn::Matrix(fs) => if at < segs.len() && fs.iter().all(|(f, b)| segs[at].matches(*f, *b)) { Some(1) } else { None },
                        RIn::Seq(xs) => { let mut k = 0; for x in xs { k += consume(x, segs, at + k, stress)?; } Some(k) }
                    }
                }
                let Some(n) = consume(inp, &sy.segs, j, sy.stress) else { continue };
                match out { ROut::Repl(r) => buf.push_str(r), ROut::Plus(r) => { for k in 0..n { buf.push_str(&g(&sy.segs[j + k])?); } buf.push_str(r); } ROut::Empty => {} }
                j += n; continue 'outer;
            }
            buf.push_str(&g(&sy.segs[j])?); j += 1;
        }
        if sy.tone != 0 { buf.push_str(&sy.tone.to_string()); }
    }
    if let Some((_, out)) = table.iter().rev().find(|(i, _)| matches!(i, RIn::Bound)) {
        let repl = match out { ROut::Repl(r) | ROut::Plus(r) => r.clone(), ROut::Empty => String::new() };
        if !repl.is_empty() && buf.starts_with(['ˈ', 'ˌ']) { buf = buf.chars().skip(1).collect(); }
        buf = buf.replace(['.', 'ˈ', 'ˌ'], &repl);
    }
    Some(buf)
}

impl Property for C15 {
    fn id(&self) -> &'static str { "C15" }
    fn rule(&self) -> String {
        "(rom) a generated word over the plain phone pool (stress, tone, long segments), 0-2 sound changes from the segmental generator, and a romaniser table of 1-4 entries in 1-3 lines: inputs are plain IPA (1-2 segments taken from the word), IPA with a stress modifier (`a:[+stress]`, `a:[+sec.stress]`, …, matched as in the manual's stress table), IPA or a group letter with a length modifier (`a:[+long]`, `V:[+overlong]`, `a:[+overlong]`, `a:[-overlong]`, …: the entry stands for the whole long segment), group letters or matrices of 1-2 segmental features, or `$`; outputs fresh strings (Cyrillic capitals / CJK, which no lexer or IPA table uses), `+string` or `*`. \
         Oracle: run(R, w, from=F) equals the harness's own rewrite of the structural result (first matching entry per position, `+` = default grapheme plus string, `*` = nothing, continuation copies of a long segment print as `ː`, `$` entry replaces every syllable separator and the leading stress mark is dropped), and run(R, w) without aliases equals the default rendering of the same structural word — i.e. the romaniser changed nothing but the print. \
         (derom) a deromaniser table mapping fresh strings (one fresh character, two fresh characters, or a plain letter of the word followed by a fresh character, so that the word may end in a proper prefix of an alias string) to segments of the word (plain, `:[+long]` for a long segment, `:[+stress]` for a segment of a primary-stressed syllable, two-segment sequences): the encoded word (segments replaced by their fresh strings, stress mark dropped where the table supplies it) must parse to the same structural word as the plain text, and run(R, encode(w), into=D) == run(R, w). \
         Non-trivial: an alias entry applied to ≥1 segment and the sound changes changed the word (rom) / an entry was used (derom). Quick 400k, thorough 5M.".into()
    }
    fn explore(&self, ctx: &mut Ctx) {
        let n = ctx.tier.pick(400_000, 5_000_000);
        run_tape_batches(self, ctx, "aliases", n, 400, &|t| {
            let gw = gen_word(t, WordProfile { max_sylls: 4, max_segs: 3, supra: true, rich: 0, long: true });
            let word = gw.text();
            let Ok(Ok(pw)) = api::parse_word(&word) else { return None };
            let segs = word_segs(&pw);
            let nr = t.weighted(&[2, 5, 2]);
            let mut rules = vec![];
            for _ in 0..nr { let mut g = RuleGen::new(RuleProfile::SEGMENTAL, segs.clone()); rules.push(rule_text(&g.rule(t))); }
            if t.chance(3, 5) {
                // romanisers
                let nl = 1 + t.weighted(&[5, 3, 1]); let mut lines = vec![]; let mut table: Vec<(RIn, ROut)> = vec![]; let mut fi = t.pick(FRESH.len());
                for _ in 0..nl {
                    let k = 1 + t.weighted(&[5, 3, 1]); let mut ins = vec![]; let mut outs = vec![];
                    for _ in 0..k {
                        let inp = match t.weighted(&[6, 2, 2, 1, 2, 2]) {
                            5 => {
                                // `a:[+stress]`, `a:[-stress]`, `a:[+sec.stress]`, `a:[+stress,-sec.stress]` … (preferably a segment of a stressed syllable)
                                let st: Vec<&String> = gw.sylls.iter().filter(|sy| sy.stress != 0).flat_map(|sy| sy.segs.iter().map(|x| &x.0)).collect();
                                let a = if !st.is_empty() && t.chance(3, 4) { st[t.pick(st.len())].clone() } else if !segs.is_empty() { segs[t.pick(segs.len())].0.clone() } else { "a".to_string() };
                                let (x, y) = [(Some(true), None), (Some(false), None), (None, Some(true)), (None, Some(false)), (Some(true), Some(false)), (Some(true), Some(true))][t.pick(6)];
                                RIn::IpaStress(a, x, y)
                            }
                            4 => {
                                // `a:[+long]`, `a:[+overlong]`, `a:[-overlong]`, … (preferably a segment that is long in the word)
                                let longs: Vec<&String> = gw.sylls.iter().flat_map(|sy| sy.segs.iter().filter(|x| x.1 > 1).map(|x| &x.0)).collect();
                                let a = if !longs.is_empty() && t.chance(3, 4) { longs[t.pick(longs.len())].clone() } else if !segs.is_empty() { segs[t.pick(segs.len())].0.clone() } else { "a".to_string() };
                                let (l, o) = [(Some(true), None), (None, Some(true)), (None, Some(false)), (Some(false), None), (Some(true), Some(false)), (Some(true), Some(true))][t.pick(6)];
                                if t.chance(1, 3) { RIn::GroupLen(['V', 'C'][t.pick(2)], l, o) } else { RIn::IpaLen(a, l, o) }
                            }
                            0 => { let a = if !segs.is_empty() && t.chance(4, 5) { segs[t.pick(segs.len())].0.clone() } else { pool().common[t.pick(pool().common.len())].text.clone() };
                                   if t.chance(1, 5) { let b = pool().common[t.pick(pool().common.len())].text.clone(); RIn::Ipa(vec![a, b]) } else { RIn::Ipa(vec![a]) } }
                            1 => { let gr = RIn::Group(GROUPS[t.pick(GROUPS.len())]);
                                   // a sequence mixing a literal and a group/matrix (`kV`, `V n`)
                                   if t.chance(1, 3) { let a = if !segs.is_empty() && t.chance(4, 5) { segs[t.pick(segs.len())].0.clone() } else { pool().common[t.pick(pool().common.len())].text.clone() };
                                       if t.chance(1, 2) { RIn::Seq(vec![RIn::Ipa(vec![a]), gr]) } else { RIn::Seq(vec![gr, RIn::Ipa(vec![a])]) } } else { gr } }
                            2 => { let f = t.pick(14); let mut fs = vec![(f, t.chance(1, 2))]; if t.chance(1, 3) { let f2 = t.pick(14); if f2 != f { fs.push((f2, t.chance(1, 2))); } } RIn::Matrix(fs) }
                            _ => RIn::Bound,
                        };
                        let fresh = FRESH[fi % FRESH.len()].to_string(); fi += 1;
                        let out = if matches!(inp, RIn::IpaLen(..) | RIn::IpaStress(..) | RIn::GroupLen(..)) { if t.chance(4, 5) { ROut::Repl(fresh) } else { ROut::Empty } } else if matches!(inp, RIn::Bound) { if t.chance(2, 3) { ROut::Empty } else { ROut::Repl(fresh) } } else { match t.weighted(&[6, 3, 1]) { 0 => ROut::Repl(fresh), 1 => ROut::Plus(fresh), _ => ROut::Empty } };
                        ins.push(rin_text(&inp)); outs.push(rout_text(&out)); table.push((inp, out));
                    }
                    lines.push(format!("{} > {}", ins.join(", "), outs.join(", ")));
                }
                Some(json!({"kind": "rom", "word": word, "rules": rules, "from": lines, "table": serde_json::to_value(&table).unwrap()}))
            } else {
                // deromanisers: pick 1-3 segments of the word
                let flat: Vec<(usize, usize)> = gw.sylls.iter().enumerate().flat_map(|(i, s)| (0..s.segs.len()).map(move |j| (i, j))).collect();
                let k = 1 + t.pick(3.min(flat.len()));
                let mut chosen: Vec<(usize, usize)> = vec![]; for _ in 0..k { let c = flat[t.pick(flat.len())]; if !chosen.iter().any(|x| x.0 == c.0 && (x.1 == c.1 || x.1 + 1 == c.1 || c.1 + 1 == x.1)) { chosen.push(c); } }
                let mut enc = gw.clone(); let mut ins = vec![]; let mut outs = vec![]; let mut fi = t.pick(FRESH.len()); let mut unstress: Vec<usize> = vec![];
                let mut used_graphemes: Vec<String> = vec![];
                for (si, sj) in &chosen {
                    let (g, len) = gw.sylls[*si].segs[*sj].clone();
                    if used_graphemes.contains(&g) { continue } used_graphemes.push(g.clone());
                    let mut fresh = FRESH[fi % FRESH.len()].to_string(); fi += 1;
                    // multi-character strings: two fresh characters, or a plain one-letter grapheme of the word followed by a fresh character (`sЖ > …`, like `sh > ʃ`):
                    // every *other* occurrence of that letter in the text — in particular at the very end of the word, where only a proper prefix of the string is left — must still read as itself
                    match t.weighted(&[4, 2, 4]) {
                        0 => {}
                        1 => { fresh.push_str(FRESH[fi % FRESH.len()]); fi += 1; }
                        _ => {
                            let all: Vec<&String> = gw.sylls.iter().flat_map(|s| s.segs.iter().map(|x| &x.0)).collect();
                            let last = *all.last().unwrap();
                            let cand = if t.chance(2, 3) { last.clone() } else { all[t.pick(all.len())].clone() };
                            let one_plain_letter = cand.chars().count() == 1 && cand.chars().all(|c| c.is_alphabetic() && !FRESH.concat().contains(c));
                            if one_plain_letter && all.iter().all(|x| **x == cand || !x.contains(cand.as_str())) { fresh = format!("{cand}{fresh}"); }
                        }
                    }
                    let stress_variant = gw.sylls[*si].stress == 1 && len == 1 && !unstress.contains(si) && t.chance(1, 2);
                    let two = !stress_variant && len == 1 && *sj + 1 < gw.sylls[*si].segs.len() && gw.sylls[*si].segs[*sj + 1].1 == 1 && !chosen.contains(&(*si, *sj + 1)) && t.chance(1, 4);
                    let out = if stress_variant { unstress.push(*si); format!("{g}:[+stress]") } else if len == 2 { format!("{g}:[+long]") } else if len == 3 { format!("{g}:[+overlong]") } else if two { format!("{g}{}", gw.sylls[*si].segs[*sj + 1].0) } else { g.clone() };
                    enc.sylls[*si].segs[*sj] = (fresh.clone(), 1);
                    if two { enc.sylls[*si].segs[*sj + 1] = (String::new(), 1); }
                    ins.push(fresh); outs.push(out);
                }
                if ins.is_empty() { return None }
                // the encoded text: the stress mark of a syllable whose stress now comes from the table is replaced by a plain boundary
                let mut text = String::new();
                for (i, s) in enc.sylls.iter().enumerate() {
                    let stress = if unstress.contains(&i) { 0 } else { s.stress };
                    match stress { 1 => text.push('ˈ'), 2 => text.push('ˌ'), _ => if i > 0 { text.push('.') } }
                    for (g, len) in &s.segs { text.push_str(g); for _ in 1..*len { text.push('ː'); } }
                    if s.tone != 0 { text.push_str(&s.tone.to_string()); }
                }
                let line = format!("{} > {}", ins.join(", "), outs.join(", "));
                Some(json!({"kind": "derom", "word": word, "encoded": text, "rules": rules, "into": [line]}))
            }
        });
    }
    fn check(&self, case: &Value) -> Outcome {
        let word = case["word"].as_str().unwrap_or(""); let rules = strs(&case["rules"]); let groups = api::groups(&rules);
        let w = match api::parse_word(word) { Ok(Ok(w)) => w, _ => return Outcome::skip("word does not parse") };
        let mw = MWord::from_asca(&w);
        let plain = match api::run(&groups, &[word.to_string()], &[], &[]) { Ok(Ok(v)) => v, Ok(Err(_)) => return Outcome::skip("the sound changes return Err"), Err(_) => return Outcome::skip("a call did not return (C02's business)") };
        let result = match api::apply_rules(&rules, &w) { Ok(Ok(r)) => MWord::from_asca(&r), _ => return Outcome::skip("structural application does not return Ok") };
        match case["kind"].as_str().unwrap_or("") {
            "rom" => {
                let from = strs(&case["from"]);
                let Ok(table): Result<Vec<(RIn, ROut)>, _> = serde_json::from_value(case["table"].clone()) else { return Outcome::skip("malformed table") };
                let Some(default_txt) = model_render(&result, &[]) else { return Outcome::skip("result has a segment that is not a base phone") };
                if plain != vec![default_txt.clone()] { return Outcome::fail("run without aliases is not the default rendering of the structural result", json!({"word": word, "rules": rules, "run": plain, "model_default": default_txt})) }
                let got = match api::run(&groups, &[word.to_string()], &[], &from) { Ok(Ok(v)) => v, Ok(Err(e)) => return Outcome::skip(&format!("alias Err:{}", api::err_variant(&e))), Err(_) => return Outcome::skip("a call did not return (C02's business)") };
                let Some(want) = model_render(&result, &table) else { return Outcome::skip("result has a segment that is not a base phone") };
                if got != vec![want.clone()] { return Outcome::fail("romanised output differs from the default rendering rewritten by the alias table", json!({"word": word, "rules": rules, "from": from, "got": got, "expected": want, "default": default_txt})) }
                if want != default_txt && result != mw { Outcome::pass_nt(hash64(&case.to_string())) } else { Outcome::pass() }
            }
            _ => {
                let into = strs(&case["into"]); let enc = case["encoded"].as_str().unwrap_or("");
                let pw = match api::parse_word_with(enc, &into) { Ok(Ok(p)) => MWord::from_asca(&p), Ok(Err(e)) => return Outcome::fail("encoded word is rejected", json!({"word": word, "encoded": enc, "into": into, "error": format!("{e:?}")})), Err(_) => return Outcome::skip("a call did not return (C02's business)") };
                if pw != mw { return Outcome::fail("encoded word parses to a different word than the plain text", json!({"word": word, "encoded": enc, "into": into, "plain_parse": mw.show(), "encoded_parse": pw.show()})) }
                match api::run(&groups, &[enc.to_string()], &into, &[]) {
                    Ok(Ok(v)) => if v != plain { return Outcome::fail("run on the encoded word differs from run on the plain word", json!({"word": word, "encoded": enc, "into": into, "rules": rules, "plain": plain, "encoded_result": v})) },
                    Ok(Err(e)) => return Outcome::fail("run on the encoded word fails", json!({"word": word, "encoded": enc, "into": into, "error": format!("{e:?}")})),
                    Err(_) => return Outcome::skip("a call did not return (C02's business)"),
                }
                Outcome::pass_nt(hash64(&case.to_string()))
            }
        }
    }
}
