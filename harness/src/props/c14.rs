//! C14 — segmental and suprasegmental changes do not leak into each other.

use crate::api;
use crate::core::*;
use crate::gen::*;
use crate::model::*;
use serde_json::{json, Value};

pub struct C14;

pub fn seg_only_rule(t: &mut Tape, segs: Vec<(String, MSeg)>) -> (Rule, &'static str) {
    let seg_prof = RuleProfile { supra_params: false, syll: false, structures: false, variables: false, insertion: false, deletion: false, metathesis: false, condensed: false, ..RuleProfile::FULL };
    let mut g = RuleGen::new(seg_prof, segs);
    let k = 1 + t.weighted(&[6, 3, 1]);
    let mut input = vec![];
    for _ in 0..k { let e = if g.prof.sets && t.chance(1, 8) { g.set_el(t, Where::Input, 2) } else { g.seg_el(t, Where::Input) }; input.push(e); }
    let matrices = t.chance(3, 5);
    let mut output = vec![];
    for e in &input {
        if matrices {
            let args = g.feat_args(t, None, Where::Output);
            let m = El::Matrix { params: Params { args, tone: None }, var: None };
            output.push(match e { El::Set(xs) if t.chance(1, 2) => El::Set(xs.iter().map(|_| m.clone()).collect()), _ => m });
        } else { output.push(El::Ipa { text: pick_seg(t, 20).text.clone(), params: None }); }
    }
    // environments from the full grammar
    g.prof = RuleProfile { insertion: false, ..RuleProfile::FULL };
    let context = if t.chance(3, 4) { Some(g.env_spec(t, 1, false)) } else { None };
    let except = if t.chance(1, 4) { Some(g.env_spec(t, 1, false)) } else { None };
    (Rule { input: Side::Terms(vec![input]), output: Side::Terms(vec![output]), context, except, comment: None }, if matrices { "segment-only:matrices" } else { "segment-only:ipa" })
}

pub fn prosody_rule(t: &mut Tape, segs: Vec<(String, MSeg)>) -> (Rule, &'static str) {
    let mut g = RuleGen::new(RuleProfile { insertion: false, ..RuleProfile::FULL }, segs);
    let supra_out = |g: &mut RuleGen, t: &mut Tape| -> El {
        let pm = |t: &mut Tape| if t.chance(1, 2) { Sign::Plus } else { Sign::Minus };
        let (args, tone) = match t.pick(4) { 0 => (vec![(pm(t), PName::Stress)], None), 1 => (vec![(pm(t), PName::SecStress)], None), 2 => (vec![], Some([0u16, 5, 51, 214][t.pick(4)])), _ => (vec![(Sign::Plus, PName::Stress)], Some(5)) };
        let _ = g; El::Matrix { params: Params { args, tone }, var: None }
    };
    let env2 = |g: &mut RuleGen, t: &mut Tape| if t.chance(3, 4) { Some(g.env_spec(t, 1, false)) } else { None };
    match t.pick(6) {
        0 => { let i = g.syll_el(t, Where::Input); let o = supra_out(&mut g, t); let c = env2(&mut g, t); (Rule { input: Side::Terms(vec![vec![i]]), output: Side::Terms(vec![vec![o]]), context: c, except: None, comment: None }, "prosody:syll-supra") }
        1 => { let i = g.seg_el(t, Where::Input); let o = supra_out(&mut g, t); let c = env2(&mut g, t); (Rule { input: Side::Terms(vec![vec![i]]), output: Side::Terms(vec![vec![o]]), context: c, except: None, comment: None }, "prosody:seg-supra") }
        2 => { let c = env2(&mut g, t); (Rule { input: Side::Terms(vec![vec![El::SBound]]), output: Side::Star, context: c, except: None, comment: None }, "prosody:boundary-deletion") }
        3 => {
            // boundary insertion with a two-sided segment context (one-sided boundary contexts are known to hang)
            let save = g.prof; g.prof.variables = false; g.prof.supra_params = false;
            let b = g.seg_el(t, Where::Context); let a = g.seg_el(t, Where::Context); let a2 = if t.chance(1, 2) { Some(g.seg_el(t, Where::Context)) } else { None };
            g.prof = save;
            let mut after = vec![a]; after.extend(a2);
            (Rule { input: Side::Star, output: Side::Terms(vec![vec![El::SBound]]), context: Some(EnvSpec::List(vec![EnvItem::One(Env { before: vec![b], after })])), except: None, comment: None }, "prosody:boundary-insertion")
        }
        4 => { let x = g.seg_el(t, Where::Input); let c = env2(&mut g, t); (Rule { input: Side::Terms(vec![vec![El::SBound, x]]), output: Side::Amp, context: c, except: None, comment: None }, "prosody:$X>&") }
        _ => { let x = g.seg_el(t, Where::Input); let c = env2(&mut g, t); (Rule { input: Side::Terms(vec![vec![x, El::SBound]]), output: Side::Amp, context: c, except: None, comment: None }, "prosody:X$>&") }
    }
}

impl Property for C14 {
    fn id(&self) -> &'static str { "C14" }
    fn rule(&self) -> String {
        "Rules classified on the generator's AST (not by asca's parser): segment-only = 1-3 segment-matching input elements (IPA, matrix, group, set; no length/stress/tone parameters) with as many outputs, all matrices of segmental features/nodes (alphas allowed) or all plain IPA; \
         prosody-only = `%`/segment input with an output matrix of [±stress]/[±sec.stress]/[tone:n] only, `$ > *`, `* > $ / X _ Y(Z)`, `$X > &`, `X$ > &`. Environments and exceptions come from the full grammar (sets, optionals, ellipses, structures, syllables, variables, alphas, env sets). \
         Words: 1-4 syllables with stress, tone and long segments, 30% rich pool. Oracle on Ok results: segment-only ⇒ number of syllables, stress vector and tone vector unchanged (and segments per syllable unchanged when the outputs are matrices and no two equal segments are adjacent inside a syllable before or after); \
         prosody-only ⇒ the flattened sequence of bundles unchanged. One case in five applies two or three rules of the same class in one run. Non-trivial: the rule(s) changed the word. Quick 4M, thorough 40M.".into()
    }
    fn explore(&self, ctx: &mut Ctx) {
        let n = ctx.tier.pick(4_000_000, 40_000_000);
        run_tape_batches(self, ctx, "tiers", n, 400, &|t| {
            let prof_w = if t.chance(3, 10) { WordProfile::RICH } else { WordProfile::PLAIN };
            let gw = gen_word(t, prof_w);
            let word = gw.text();
            let Ok(Ok(pw)) = api::parse_word(&word) else { return None };
            let segs = word_segs(&pw);
            // one case in five: two or three rules of the same class in one run (the tier that each of them must not touch stays untouched by the sequence;
            // what a rule leaves behind inside the word — not only what it prints — is what the next rule works on)
            if t.chance(1, 5) {
                let seg_class = t.chance(1, 3);
                let k = 2 + t.pick(2);
                let mut rules = vec![]; let mut classes = vec![];
                for _ in 0..k { let (r, c) = if seg_class { seg_only_rule(t, segs.clone()) } else { prosody_rule(t, segs.clone()) }; rules.push(rule_text(&r)); classes.push(c); }
                let class = if seg_class { if classes.iter().all(|c| c.ends_with("matrices")) { "segment-only:sequence:matrices" } else { "segment-only:sequence" } } else { "prosody:sequence" };
                let typed: Vec<(u8, u16)> = gw.sylls.iter().map(|s| (s.stress, s.tone)).collect();
                return Some(json!({"rule": rules[0], "rules": rules, "word": word, "class": class, "classes": classes, "typed_prosody": typed}));
            }
            let (r, class) = if t.chance(1, 2) { seg_only_rule(t, segs) } else { prosody_rule(t, segs) };
            // the stress and tone of every syllable as the word was typed (the generator's own record, independent of asca's word reader)
            let typed: Vec<(u8, u16)> = gw.sylls.iter().map(|s| (s.stress, s.tone)).collect();
            Some(json!({"rule": rule_text(&r), "word": word, "class": class, "typed_prosody": typed}))
        });
    }
    fn check(&self, case: &Value) -> Outcome {
        let rule = case["rule"].as_str().unwrap_or(""); let word = case["word"].as_str().unwrap_or(""); let class = case["class"].as_str().unwrap_or("");
        let w = match api::parse_word(word) { Ok(Ok(w)) => w, _ => return Outcome::skip("word does not parse") };
        let mw = MWord::from_asca(&w);
        let rules: Vec<String> = match case["rules"].as_array() { Some(rs) => rs.iter().filter_map(|r| r.as_str().map(|x| x.to_string())).collect(), None => vec![rule.to_string()] };
        match api::apply_rules(&rules, &w) {
            Err(_) => Outcome::skip("call did not return (C02's business)"),
            Ok(Err(e)) => Outcome::skip(&format!("Err:{}", api::err_variant(&e))),
            Ok(Ok(g)) => {
                let g = MWord::from_asca(&g);
                let detail = || json!({"rule": rule, "word": word, "class": class, "before": mw.show(), "after": g.show()});
                if class.starts_with("segment-only") {
                    let pros = |w: &MWord| w.sylls.iter().map(|s| (s.stress, s.tone)).collect::<Vec<_>>();
                    if g.sylls.len() != mw.sylls.len() { return Outcome::fail(format!("{class}: number of syllables changed"), detail()) }
                    if pros(&g) != pros(&mw) { return Outcome::fail(format!("{class}: stress or tone changed"), detail()) }
                    // … also against the word as it was typed (a stress mark or tone that the reader drops is a change of the prosodic tier all the same)
                    if let Some(tp) = case["typed_prosody"].as_array() {
                        let typed: Vec<(u8, u16)> = tp.iter().map(|x| (x[0].as_u64().unwrap_or(0) as u8, x[1].as_u64().unwrap_or(0) as u16)).collect();
                        let norm = |v: Vec<(u8, u16)>| v.into_iter().map(|(st, tn)| (st, tn.to_string().replace('0', "").parse::<u16>().unwrap_or(0))).collect::<Vec<_>>();
                        if norm(pros(&g)) != norm(typed) { return Outcome::fail(format!("{class}: stress or tone of the result differ from the word as typed"), detail()) }
                    }
                    let no_runs = |w: &MWord| w.sylls.iter().all(|s| s.segs.windows(2).all(|p| p[0] != p[1]));
                    if class.ends_with("matrices") && no_runs(&mw) && no_runs(&g) && g.prosody() != mw.prosody() { return Outcome::fail(format!("{class}: segments moved across a boundary"), detail()) }
                } else if g.flat() != mw.flat() { return Outcome::fail(format!("{class}: segments changed"), detail()) }
                let o = if g != mw { Outcome::pass_nt(hash64(&(rule, word))) } else { Outcome::pass() };
                o.with_class(class)
            }
        }
    }
}
