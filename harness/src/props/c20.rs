//! C20 — a `seq` project is the composition of its stages, as configured (subprocess, histories).

use crate::api;
use crate::core::*;
use crate::gen::*;
use crate::props::c19::{fresh_dir, rsca_text, run_cli, simple_rule, to_rulegroups, wsca_text};
use asca::RuleGroup;
use serde::{Deserialize, Serialize};
use serde_json::{json, Value};
use std::collections::HashMap;

pub struct C20;

type Group = (String, Vec<String>, Vec<String>);

#[derive(Clone, Debug, Serialize, Deserialize)]
struct Entry { file: usize, filter: Option<(bool, Vec<String>)> } // (true = `~` keep, false = `!` remove, names as written in the config)
#[derive(Clone, Debug, Serialize, Deserialize)]
struct Tag { name: String, from: Option<String>, alias: bool, words: Vec<usize>, entries: Vec<Entry> }
#[derive(Clone, Debug, Serialize, Deserialize)]
struct Project { rule_files: Vec<Vec<Group>>, word_files: Vec<Vec<(String, Option<String>)>>, into: Vec<String>, tags: Vec<Tag>, expect_reject: Option<String>, #[serde(default)] order: Vec<usize> }

const GNAMES: &[&str] = &["Grimms Law", "Verner", "a-mutation", "Final Devoicing", "Umlaut (i)", "Nasal loss 2", "Lenition", "Hap(lo)logy", "Cluster Simplification", "Syncope", "Élision", "Ömlaut-Ü", "Ñ loss", "Æ-raising"];

fn mixcase(t: &mut Tape, s: &str) -> String { s.chars().map(|c| if t.chance(1, 3) { if c.is_lowercase() { c.to_uppercase().next().unwrap() } else { c.to_lowercase().next().unwrap() } } else { c }).collect() }

fn gen_project(t: &mut Tape) -> Project {
    let nwf = 1 + t.pick(3);
    let mut word_files = vec![]; let mut segs = vec![];
    for _ in 0..nwf {
        let n = 1 + t.pick(4); let mut lines = vec![];
        for _ in 0..n { let w = gen_word(t, WordProfile::PLAIN).text(); if let Ok(Ok(pw)) = api::parse_word(&w) { segs.extend(word_segs(&pw)); }
            lines.push((w, if t.chance(1, 5) { Some("gloss".to_string()) } else { None })); if t.chance(1, 6) { lines.push((String::new(), Some("section".into()))); } }
        while lines.last().map(|l: &(String, Option<String>)| l.0.is_empty()).unwrap_or(false) { lines.pop(); }
        word_files.push(lines);
    }
    let nrf = 1 + t.pick(4);
    let mut rule_files = vec![];
    for _ in 0..nrf {
        let ng = 2 + t.pick(3); let mut groups: Vec<Group> = vec![]; let mut ni = t.pick(GNAMES.len());
        for _ in 0..ng { let nr = 1 + t.pick(2); groups.push((GNAMES[ni % GNAMES.len()].to_string(), (0..nr).map(|_| simple_rule(t, &segs)).collect(), if t.chance(1, 2) { vec!["a description".to_string()] } else { vec![] })); ni += 1; }
        rule_files.push(groups);
    }
    let ntags = 1 + t.weighted(&[2, 4, 3, 3, 1]);
    let mut tags: Vec<Tag> = vec![];
    let into = if t.chance(1, 3) { vec!["Я > a".to_string(), "Ж, Ш > ʃ, s:[+long]".to_string()] } else { vec![] };
    for i in 0..ntags {
        let from = if i > 0 && t.chance(3, 4) { Some(tags[t.pick(i)].name.clone()) } else { None };
        let words: Vec<usize> = if from.is_none() { (0..1 + t.pick(2)).map(|_| t.pick(nwf)).collect() } else if t.chance(1, 4) { vec![t.pick(nwf)] } else { vec![] };
        let ne = 1 + t.weighted(&[4, 3, 1]);
        let mut entries = vec![];
        for _ in 0..ne {
            let f = t.pick(nrf);
            let filter = if t.chance(1, 2) {
                let names: Vec<String> = rule_files[f].iter().map(|g| g.0.clone()).collect();
                let keep = t.chance(1, 2);
                let k = 1 + t.pick(names.len().min(3));
                let mut chosen: Vec<String> = vec![]; for _ in 0..k { let n = names[t.pick(names.len())].clone(); if !chosen.contains(&n) { chosen.push(n); } }
                if !keep && chosen.len() == names.len() { chosen.pop(); }
                if chosen.is_empty() { None } else { Some((keep, chosen.iter().map(|n| mixcase(t, n)).collect())) }
            } else { None };
            entries.push(Entry { file: f, filter });
        }
        tags.push(Tag { name: format!("tag{}{}", i, ["", "-b", "_x"][t.pick(3)]), from, alias: i == 0 && !into.is_empty(), words, entries });
    }
    if !into.is_empty() { if let Some(first) = word_files.get_mut(tags[0].words[0]) { first.push(("ЯЖa".to_string(), None)); } }
    // invalid configs: reference cycles or a dangling reference
    let expect_reject = if t.chance(1, 6) {
        let kind = t.pick(4);
        match kind {
            0 => { let i = t.pick(tags.len()); let n = tags[i].name.clone(); tags[i].from = Some(n); Some("self-loop".to_string()) }
            1 if tags.len() >= 2 => { let (a, b) = (tags[0].name.clone(), tags[1].name.clone()); tags[0].from = Some(b); tags[1].from = Some(a); Some("2-cycle".to_string()) }
            2 if tags.len() >= 3 => { let (a, b, c) = (tags[0].name.clone(), tags[1].name.clone(), tags[2].name.clone()); tags[0].from = Some(c); tags[1].from = Some(a); tags[2].from = Some(b); Some("3-cycle".to_string()) }
            _ => { let i = t.pick(tags.len()); tags[i].from = Some("nosuchtag".into()); Some("dangling reference".to_string()) }
        }
    } else { None };
    // the order in which the tags are declared in the config file is irrelevant to their meaning: children may come before parents
    let mut order: Vec<usize> = (0..tags.len()).collect();
    if t.chance(1, 2) { for i in (1..order.len()).rev() { let j = t.pick(i + 1); order.swap(i, j); } }
    Project { rule_files, word_files, into, tags, expect_reject, order }
}

fn config_text(p: &Project) -> String {
    let mut s = String::from("# generated config\n");
    let order: Vec<usize> = if p.order.len() == p.tags.len() { p.order.clone() } else { (0..p.tags.len()).collect() };
    for tg in order.iter().map(|i| &p.tags[*i]) {
        s.push_str(&format!("@{}", tg.name));
        if let Some(f) = &tg.from { s.push_str(&format!(" %{f}")); }
        if tg.alias { s.push_str(" $root"); }
        if !tg.words.is_empty() { s.push_str(&format!(" [{}]", tg.words.iter().map(|w| format!("\"w{w}\"")).collect::<Vec<_>>().join(", "))); }
        s.push_str(":\n");
        let es: Vec<String> = tg.entries.iter().map(|e| { let mut x = format!("    \"r{}\"", e.file); if let Some((keep, names)) = &e.filter { x.push_str(&format!(" {} {{{}}}", if *keep { "~" } else { "!" }, names.iter().map(|n| format!("\"{n}\"")).collect::<Vec<_>>().join(", "))); } x }).collect();
        s.push_str(&es.join(",\n")); s.push_str("\n\n");
    }
    s
}

fn filtered(groups: &[Group], filter: &Option<(bool, Vec<String>)>) -> Vec<RuleGroup> {
    let all = to_rulegroups(groups);
    match filter {
        None => all,
        Some((true, names)) => names.iter().filter_map(|n| all.iter().find(|g| g.name.to_lowercase() == n.to_lowercase()).cloned()).collect(),
        Some((false, names)) => all.into_iter().filter(|g| !names.iter().any(|n| n.to_lowercase() == g.name.to_lowercase())).collect(),
    }
}

/// the harness's composition: final words of a tag (None if a library call fails)
fn expected(p: &Project, tag: &str, cache: &mut HashMap<String, Option<Vec<String>>>) -> Option<Vec<String>> {
    if let Some(x) = cache.get(tag) { return x.clone() }
    let tg = p.tags.iter().find(|t| t.name == tag)?;
    let mut words: Vec<String> = match &tg.from { Some(f) => expected(p, f, cache)?, None => vec![] };
    for wf in &tg.words { if !words.is_empty() { words.push(String::new()); } words.extend(p.word_files[*wf].iter().map(|l| l.0.clone())); }
    let into: Vec<String> = if tg.alias { p.into.clone() } else { vec![] };
    let mut res = Some(words);
    for e in &tg.entries {
        let gs = filtered(&p.rule_files[e.file], &e.filter);
        res = match res { Some(w) => match api::run(&gs, &w, &into, &[]) { Ok(Ok(o)) => Some(o), _ => None }, None => None };
    }
    cache.insert(tag.to_string(), res.clone());
    res
}

fn nonempty(v: &[String]) -> Vec<String> { v.iter().filter(|l| !l.trim().is_empty()).cloned().collect() }

impl Property for C20 {
    fn id(&self) -> &'static str { "C20" }
    fn rule(&self) -> String {
        "Generated project trees written to a fresh directory: 1-3 word files, 1-4 rule files (2-4 named groups each), 1-4 tags (up to 5 in the thorough tier) linked by `%` references into chains and forks and declared in a random order (children before parents in half of the cases) (a referencing tag may add a word file), 1-3 rule-file entries per tag with random `!` / `~` filters whose names are written in mixed case, in a third of the cases a deromaniser-only alias on the root tag (fresh strings, used by one extra word); one config in six is made invalid (self-loop, 2-cycle, 3-cycle, dangling reference). \
         Oracle: after `asca seq DIR -o -y` (all tags) and `asca seq DIR -t T -o -y` (fresh copy), the single file under out/<tag>/ equals, as a sequence of non-empty lines, the harness's own composition: start words = final words of the referenced tag (+ word files) or the word files; each entry = the file's groups filtered (`!` removes exactly the named groups, `~` keeps exactly the named ones in the order named, case-insensitively) applied with asca::run; \
         `conv tag T -r` exports JSON whose rules/words, run through asca::run, give the same words when no word file is added along the chain; an invalid config makes the binary exit non-zero without a crash signal within 30 s (timeout = exit 2, never a violation). \
         Non-trivial: ≥2 tags linked by `%`, ≥1 filter that changes the group list, ≥1 word changed. Quick 6000 trees, thorough 60000.".into()
    }
    fn workers(&self, _t: Tier) -> usize { 8 }
    fn explore(&self, ctx: &mut Ctx) {
        let n = ctx.tier.pick(6000, 60000);
        run_tape_batches(self, ctx, "trees", n, 500, &|t| Some(serde_json::to_value(gen_project(t)).unwrap()));
    }
    fn check(&self, case: &Value) -> Outcome {
        let Ok(p): Result<Project, _> = serde_json::from_value(case.clone()) else { return Outcome::skip("malformed case") };
        let dir = fresh_dir("c20", case);
        let cleanup = |o: Outcome| { let _ = std::fs::remove_dir_all(&dir); o };
        let write_tree = |d: &std::path::Path| {
            let _ = std::fs::create_dir_all(d);
            for (i, wf) in p.word_files.iter().enumerate() { let _ = std::fs::write(d.join(format!("w{i}.wsca")), wsca_text(wf)); }
            for (i, rf) in p.rule_files.iter().enumerate() { let _ = std::fs::write(d.join(format!("r{i}.rsca")), rsca_text(rf, i % 2 == 0)); }
            if !p.into.is_empty() { let mut a = String::from("@into\n"); for l in &p.into { a.push_str(&format!("    {l}\n")); } a.push_str("@from\n"); let _ = std::fs::write(d.join("root.alias"), a); }
            let _ = std::fs::write(d.join("config.asca"), config_text(&p));
        };
        let all = dir.join("all"); write_tree(&all);
        let r = run_cli(&dir, &["seq", "all", "-o", "-y"]);
        if r.timed_out {
            // "a config whose references form a cycle is rejected instead of recursing … in bounded time": for a cyclic config a run that does not end
            // (30 s for a job of milliseconds, confirmed by a second attempt) is the violation itself; for any other config a timeout stays inconclusive
            if p.expect_reject.as_deref().map(|k| k.contains("cycle") || k.contains("loop")).unwrap_or(false) && (api::is_shrinking() || run_cli(&dir, &["seq", "all", "-o", "-y"]).timed_out) {
                let d = json!({"what": "no exit within 30 s (twice)", "config": config_text(&p), "case": case});
                return cleanup(Outcome::fail("seq: a cyclic config is not rejected in bounded time", d))
            }
            return cleanup(Outcome::skip("TIMEOUT running the binary"))
        }
        let detail = |what: &str, extra: Value| json!({"what": what, "config": config_text(&p), "case": case, "extra": extra});
        if r.signal { return cleanup(Outcome::fail("seq: the binary died from a signal", detail("crash", json!({"stdout": r.stdout})))) }
        if let Some(kind) = &p.expect_reject {
            if r.code == Some(0) { return cleanup(Outcome::fail(format!("invalid config accepted ({kind})"), detail("exit status 0", json!({"stdout": r.stdout})))) }
            return cleanup(Outcome::pass_nt(hash64(&case.to_string())).with_class(format!("rejected:{kind}")))
        }
        if r.code != Some(0) { return cleanup(Outcome::fail("seq: non-zero exit status on a valid config", detail("exit", json!({"stdout": r.stdout, "exit": r.code})))) }
        let read_out = |base: &std::path::Path, tag: &str| -> Result<Option<Vec<String>>, String> {
            let d = base.join("out").join(tag);
            let files: Vec<_> = std::fs::read_dir(&d).map(|rd| rd.filter_map(|e| e.ok()).map(|e| e.path()).collect()).unwrap_or_default();
            match files.len() { 0 => Ok(None), 1 => Ok(Some(std::fs::read_to_string(&files[0]).unwrap_or_default().split('\n').map(|s| s.to_string()).collect())), n => Err(format!("{n} files under out/{tag}")) }
        };
        let mut cache = HashMap::new(); let mut changed = false; let mut filter_effect = false;
        for tg in &p.tags {
            let want = expected(&p, &tg.name, &mut cache);
            let got = match read_out(&all, &tg.name) { Ok(g) => g, Err(e) => return cleanup(Outcome::fail("seq: more than one file written for a tag", detail(&e, json!(null)))) };
            match (&want, &got) {
                (Some(w), Some(g)) => if nonempty(w) != nonempty(g) { return cleanup(Outcome::fail("seq: words written for a tag differ from the composition of its stages", detail(&tg.name, json!({"written": g, "composition": w})))) },
                (Some(w), None) => return cleanup(Outcome::fail("seq: nothing written for a tag whose composition succeeds", detail(&tg.name, json!({"composition": w, "stdout": r.stdout})))),
                (None, Some(g)) => return cleanup(Outcome::fail("seq: words written for a tag although a stage fails in the library", detail(&tg.name, json!({"written": g})))),
                (None, None) => {}
            }
            for e in &tg.entries { if e.filter.is_some() && filtered(&p.rule_files[e.file], &e.filter).iter().map(|g| g.name.clone()).collect::<Vec<_>>() != p.rule_files[e.file].iter().map(|g| g.0.clone()).collect::<Vec<_>>() { filter_effect = true; } }
            if let Some(w) = &want { if tg.from.is_none() { let s: Vec<String> = tg.words.iter().flat_map(|wf| p.word_files[*wf].iter().map(|l| l.0.clone())).collect(); if nonempty(&s) != nonempty(w) { changed = true; } } }
        }
        // single-tag run and the recursive export, for the last tag
        if let Some(tg) = p.tags.last() {
            let one = dir.join("one"); write_tree(&one);
            let r = run_cli(&dir, &["seq", "one", "-t", &tg.name, "-o", "-y"]);
            if r.timed_out { return cleanup(Outcome::skip("TIMEOUT running the binary")) }
            let want = expected(&p, &tg.name, &mut cache);
            let got = read_out(&one, &tg.name).ok().flatten();
            if want.as_ref().map(|w| nonempty(w)) != got.as_ref().map(|g| nonempty(g)) { return cleanup(Outcome::fail("seq -t: words written for the tag differ from the composition of its stages", detail(&tg.name, json!({"written": got, "composition": want})))) }
            // conv tag -r : only when no word file is added after the root of the chain
            let mut chain_adds = false; let mut cur = tg; while let Some(f) = &cur.from { if !cur.words.is_empty() { chain_adds = true; } cur = p.tags.iter().find(|t| t.name == *f).unwrap(); }
            // (a stage whose rendered output contains � cannot be fed to the next stage: such tags have no staged result to compare with)
            if !chain_adds && want.is_some() {
                let r = run_cli(&dir, &["conv", "tag", &tg.name, "-p", "one", "-r", "-o", "export.json"]);
                if r.timed_out { return cleanup(Outcome::skip("TIMEOUT running the binary")) }
                let j: Option<Value> = std::fs::read_to_string(dir.join("export.json")).ok().and_then(|t| serde_json::from_str(&t).ok());
                let Some(j) = j else { return cleanup(Outcome::fail("conv tag -r: no JSON written", detail(&tg.name, json!({"stdout": r.stdout, "exit": r.code})))) };
                let rules: Vec<RuleGroup> = serde_json::from_value(j["rules"].clone()).unwrap_or_default();
                let words: Vec<String> = serde_json::from_value(j["words"].clone()).unwrap_or_default();
                let into: Vec<String> = serde_json::from_value(j["into"].clone()).unwrap_or_default();
                let res = api::run(&rules, &words, &into, &[]).ok().and_then(|r| r.ok());
                if res.as_ref().map(|w| nonempty(w)) != want.as_ref().map(|w| nonempty(w)) { return cleanup(Outcome::fail("conv tag -r: the exported rule history does not reproduce the tag's words", detail(&tg.name, json!({"export": j, "export_result": res, "composition": want})))) }
            }
        }
        let linked = p.tags.iter().any(|t| t.from.is_some());
        cleanup(if linked && filter_effect && changed { Outcome::pass_nt(hash64(&case.to_string())) } else { Outcome::pass() })
    }
}
