// shared generators
