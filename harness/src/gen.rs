//! Shared generators: segment pool, words (text), a typed rule AST with printer, and tape-driven
//! word-directed rule generation. Every random choice is a `Tape` draw.

use crate::core::Tape;
use crate::model::*;
use serde::{Deserialize, Serialize};
use std::sync::OnceLock;

// ------------------------------------------------------------------------------------------------
// Segment pool

#[derive(Clone, Debug)]
pub struct PSeg { pub text: String, pub seg: MSeg }

pub struct Pool {
    /// frequent plain phones (words and rules are mostly built from these so that rules fire)
    pub common: Vec<PSeg>,
    /// all 365 bases
    pub bases: Vec<PSeg>,
    /// every parseable base + one diacritic whose value differs from the base
    pub dia1: Vec<PSeg>,
}

const COMMON: &[&str] = &["p", "t", "k", "b", "d", "ɡ", "m", "n", "s", "z", "h", "l", "r", "j", "w", "a", "e", "i", "o", "u", "ə", "ʔ", "f", "x", "ŋ", "ʃ"];

/// applies a diacritic the way the manual describes: prerequisites must hold, payload features are set
pub fn apply_dia(s: &MSeg, d: &Dia) -> Option<MSeg> {
    for (f, b) in &d.prereq_feats { if !s.matches(*f, *b) { return None } }
    for (n, b) in &d.prereq_nodes { if s.node(*n).is_some() != *b { return None } }
    let mut r = *s;
    for (n, b) in &d.payload_nodes { if *b { if r.node(*n).is_none() { r.set_node(*n, Some(0)) } } else { r.set_node(*n, None) } }
    for (f, b) in &d.payload_feats { r.set_feat(*f, *b); }
    Some(r)
}

pub fn pool() -> &'static Pool {
    static P: OnceLock<Pool> = OnceLock::new();
    P.get_or_init(|| {
        let t = tables();
        let bases: Vec<PSeg> = t.bases.iter().map(|(k, s)| PSeg { text: k.clone(), seg: *s }).collect();
        let common: Vec<PSeg> = COMMON.iter().filter_map(|c| t.by_name.get(*c).map(|s| PSeg { text: c.to_string(), seg: *s })).collect();
        let mut dia1 = vec![];
        for b in &bases {
            for d in &t.dias {
                if let Some(s) = apply_dia(&b.seg, d) {
                    if s != b.seg { let mut text = b.text.clone(); text.push(d.ch); dia1.push(PSeg { text, seg: s }); }
                }
            }
        }
        Pool { common, bases, dia1 }
    })
}

// ------------------------------------------------------------------------------------------------
// Words as text

#[derive(Clone, Debug, Serialize, Deserialize, PartialEq)]
pub struct GSyll { pub segs: Vec<(String, u8)>, pub stress: u8, pub tone: u16 } // (grapheme, length 1..3)
#[derive(Clone, Debug, Serialize, Deserialize, PartialEq)]
pub struct GWord { pub sylls: Vec<GSyll> }

impl GWord {
    pub fn text(&self) -> String {
        let mut out = String::new();
        for (i, s) in self.sylls.iter().enumerate() {
            match s.stress { 1 => out.push('ˈ'), 2 => out.push('ˌ'), _ => if i > 0 { out.push('.') } }
            for (g, len) in &s.segs { out.push_str(g); for _ in 1..*len { out.push('ː'); } }
            if s.tone != 0 { out.push_str(&s.tone.to_string()); }
        }
        out
    }
    pub fn graphemes(&self) -> Vec<&str> { self.sylls.iter().flat_map(|s| s.segs.iter().map(|(g, _)| g.as_str())).collect() }
}

#[derive(Clone, Copy, Debug)]
pub struct WordProfile { pub max_sylls: usize, pub max_segs: usize, pub supra: bool, pub rich: u32 /* % of segments from the full pool */, pub long: bool }
impl WordProfile {
    pub const PLAIN: WordProfile = WordProfile { max_sylls: 4, max_segs: 3, supra: true, rich: 10, long: true };
    pub const RICH: WordProfile = WordProfile { max_sylls: 4, max_segs: 4, supra: true, rich: 40, long: true };
    pub const TINY: WordProfile = WordProfile { max_sylls: 3, max_segs: 2, supra: false, rich: 0, long: false };
}

const TONES: [u16; 8] = [0, 5, 51, 214, 1234, 3, 50, 105];

pub fn pick_seg<'a>(t: &mut Tape, rich: u32) -> &'a PSeg {
    let p = pool();
    if rich > 0 && t.chance(rich, 100) {
        if t.chance(1, 2) { &p.bases[t.pick(p.bases.len())] } else { &p.dia1[t.pick(p.dia1.len())] }
    } else { &p.common[t.pick(p.common.len())] }
}

fn is_vowel(s: &MSeg) -> bool { s.root & 0b101 == 0b001 && s.root & 0b010 != 0 }

pub fn gen_word(t: &mut Tape, prof: WordProfile) -> GWord {
    let n = 1 + t.weighted(&[3, 5, 3, 1][..prof.max_sylls.min(4)]);
    let tonal = prof.supra && t.chance(1, 5);
    let stressed = prof.supra && t.chance(1, 2);
    let prim = if stressed { t.pick(n) } else { usize::MAX };
    let mut sylls: Vec<GSyll> = vec![];
    for i in 0..n {
        // repeated syllables (what a syllable variable reference needs in order to match)
        if i > 0 && t.chance(1, 8) {
            let mut prev: GSyll = sylls[t.pick(i)].clone();
            if i == prim { prev.stress = 1 } else if prev.stress == 1 { prev.stress = 0 }
            sylls.push(prev);
            continue;
        }
        let k = 1 + t.weighted(&[3, 6, 3, 1][..prof.max_segs.min(4)]);
        let mut segs: Vec<(String, u8)> = vec![];
        // CV-ish bias: choose a vowel slot
        let vslot = if k == 1 { 0 } else { 1 + t.pick(k - 1).min(k - 2) };
        for j in 0..k {
            // repeated segments (what a segment variable reference needs in order to match)
            if j > 0 && t.chance(1, 12) { let prev = segs[t.pick(j)].clone(); segs.push(prev); continue; }
            let mut ps = pick_seg(t, prof.rich);
            // bias: vowel in the vowel slot, consonant elsewhere (3 tries on the common pool)
            for _ in 0..3 { if is_vowel(&ps.seg) == (j == vslot) { break } ps = pick_seg(t, 0); }
            let len = if prof.long && t.chance(1, 8) { if t.chance(1, 4) { 3 } else { 2 } } else { 1 };
            segs.push((ps.text.clone(), len));
        }
        let stress = if i == prim { 1 } else if stressed && t.chance(1, 6) { 2 } else { 0 };
        let tone = if tonal { TONES[t.pick(TONES.len())] } else { 0 };
        sylls.push(GSyll { segs, stress, tone });
    }
    GWord { sylls }
}

/// Adds to a word list (one case in four) a pair of words that are the same word in two notations — plain IPA and the Americanist
/// letters `ł ñ ¢ ƛ λ`, which asca writes back the way they were typed — and (one case in six) an exact repeat of a word:
/// what a per-call or per-process cache keyed on the parsed word would confuse.
pub fn add_twin_words(t: &mut Tape, words: &mut Vec<String>) {
    if words.is_empty() { return }
    if t.chance(1, 4) {
        let (ipa, ame) = [("ɬ", "ł"), ("ɲ", "ñ"), ("t͡s", "¢"), ("t͡ɬ", "ƛ"), ("d͡ɮ", "λ")][t.pick(5)];
        let base = if t.chance(1, 2) { words[t.pick(words.len())].clone() } else { String::new() };
        let v = ["a", "i", "u"][t.pick(3)];
        let mk = |x: &str| if base.is_empty() || base.contains(['*', '%', ':', ';']) { format!("{x}{v}") } else { format!("{base}.{x}{v}") };
        let (w1, w2) = if t.chance(1, 2) { (mk(ipa), mk(ame)) } else { (mk(ame), mk(ipa)) };
        let at = t.pick(words.len() + 1);
        words.insert(at, w1);
        let at2 = if t.chance(1, 2) { at + 1 } else { t.pick(words.len() + 1) };
        words.insert(at2, w2);
    }
    if t.chance(1, 6) { let w = words[t.pick(words.len())].clone(); let at = t.pick(words.len() + 1); words.insert(at, w); }
}

// ------------------------------------------------------------------------------------------------
// Rule AST

#[derive(Clone, Copy, Debug, PartialEq, Eq, Serialize, Deserialize)]
pub enum Sign { Plus, Minus, Alpha(char), NegAlpha(char) }

#[derive(Clone, Copy, Debug, PartialEq, Eq, Serialize, Deserialize)]
pub enum PName { Feat(usize), Lab, Cor, Dor, Phr, Place, Root, Manner, Lar, Long, Overlong, Stress, SecStress }

impl PName {
    pub fn name(&self) -> &'static str {
        match self { PName::Feat(i) => FEATS[*i].0, PName::Lab => "lab", PName::Cor => "cor", PName::Dor => "dor", PName::Phr => "phr", PName::Place => "place",
                     PName::Root => "root", PName::Manner => "manner", PName::Lar => "lar", PName::Long => "long", PName::Overlong => "overlong",
                     PName::Stress => "stress", PName::SecStress => "secstress" }
    }
    pub fn is_supra(&self) -> bool { matches!(self, PName::Long | PName::Overlong | PName::Stress | PName::SecStress) }
    pub fn is_length(&self) -> bool { matches!(self, PName::Long | PName::Overlong) }
    pub fn is_node(&self) -> bool { matches!(self, PName::Lab | PName::Cor | PName::Dor | PName::Phr | PName::Place | PName::Root | PName::Manner | PName::Lar) }
}

#[derive(Clone, Debug, PartialEq, Default, Serialize, Deserialize)]
pub struct Params { pub args: Vec<(Sign, PName)>, pub tone: Option<u16> }

#[derive(Clone, Debug, PartialEq, Serialize, Deserialize)]
pub enum El {
    Ipa { text: String, params: Option<Params> },
    Matrix { params: Params, var: Option<u32> },
    Group { letter: char, params: Option<Params>, var: Option<u32> },
    Set(Vec<El>),
    Syll { params: Option<Params>, var: Option<u32> },
    Struct { items: Vec<El>, params: Option<Params>, var: Option<u32> },
    Var { n: u32, params: Option<Params> },
    Ellipsis,
    SBound,
    WBound,
    Opt { items: Vec<El>, min: u32, max: u32, form: u8 },
}

#[derive(Clone, Debug, PartialEq, Default, Serialize, Deserialize)]
pub struct Env { pub before: Vec<El>, pub after: Vec<El> }

#[derive(Clone, Debug, PartialEq, Serialize, Deserialize)]
pub enum EnvItem { One(Env), Set(Vec<Env>) }

#[derive(Clone, Debug, PartialEq, Serialize, Deserialize)]
pub enum EnvSpec { List(Vec<EnvItem>), Special(Vec<El>) }

#[derive(Clone, Debug, PartialEq, Serialize, Deserialize)]
pub enum Side { Star, Amp, Terms(Vec<Vec<El>>) }

#[derive(Clone, Debug, PartialEq, Serialize, Deserialize)]
pub struct Rule { pub input: Side, pub output: Side, pub context: Option<EnvSpec>, pub except: Option<EnvSpec>, pub comment: Option<String> }

// ------------------------------------------------------------------------------------------------
// Printer

#[derive(Clone, Debug)]
pub struct Style {
    pub arrow: &'static str, pub pipe: &'static str, pub star: &'static str, pub ellipsis: &'static str,
    pub angle: (&'static str, &'static str), pub matrix_space: bool, pub latin_alpha: bool, /** alpha letters counted from the end of the alphabet (α→ω, β→ψ … / α→Z, β→Y …) */ pub alpha_rev: bool,
    /// feature-name spelling: (feature index in the synonym table, spelling) overrides; None = canonical
    pub feat_name: Option<fn(PName) -> String>,
}
impl Default for Style {
    fn default() -> Self { Style { arrow: ">", pipe: "|", star: "*", ellipsis: "...", angle: ("<", ">"), matrix_space: false, latin_alpha: false, alpha_rev: false, feat_name: None } }
}

const GREEK: &str = "αβγδεζηθικλμνξοπρστυφχψω";
pub fn alpha_char(i: usize) -> char { GREEK.chars().nth(i % 24).unwrap() }
fn latin_of(c: char) -> char { match GREEK.chars().position(|g| g == c) { Some(i) => (b'A' + i as u8) as char, None => c } }

impl Style {
    fn alpha_letter(&self, c: char) -> char {
        let Some(i) = GREEK.chars().position(|g| g == c) else { return c };
        let n = GREEK.chars().count();
        match (self.latin_alpha, self.alpha_rev) {
            (false, false) => c,
            (true, false) => latin_of(c),
            (false, true) => GREEK.chars().nth(n - 1 - i).unwrap_or(c),
            (true, true) => (b'Z' - (i as u8 % 26)) as char,
        }
    }
    fn sign(&self, s: &Sign) -> String {
        match s {
            Sign::Plus => "+".into(), Sign::Minus => "-".into(),
            Sign::Alpha(c) => self.alpha_letter(*c).to_string(),
            Sign::NegAlpha(c) => format!("-{}", self.alpha_letter(*c)),
        }
    }
    pub fn params(&self, p: &Params) -> String {
        let mut parts: Vec<String> = p.args.iter().map(|(s, n)| {
            let name = match self.feat_name { Some(f) => f(*n), None => n.name().to_string() };
            if self.matrix_space { format!("{} {}", self.sign(s), name) } else { format!("{}{}", self.sign(s), name) }
        }).collect();
        if let Some(t) = p.tone { parts.push(if self.matrix_space { format!("tone : {t}") } else { format!("tone:{t}") }); }
        if self.matrix_space { format!("[ {} ]", parts.join(" , ")) } else { format!("[{}]", parts.join(",")) }
    }
    fn opt_params(&self, p: &Option<Params>) -> String { match p { Some(p) => format!(":{}", self.params(p)), None => String::new() } }
    fn var(&self, v: &Option<u32>) -> String { match v { Some(n) => format!("={n}"), None => String::new() } }
    pub fn el(&self, e: &El) -> String {
        match e {
            El::Ipa { text, params } => format!("{text}{}", self.opt_params(params)),
            El::Matrix { params, var } => format!("{}{}", self.params(params), self.var(var)),
            El::Group { letter, params, var } => format!("{letter}{}{}", self.opt_params(params), self.var(var)),
            El::Set(xs) => format!("{{{}}}", xs.iter().map(|x| self.el(x)).collect::<Vec<_>>().join(", ")),
            El::Syll { params, var } => format!("%{}{}", self.opt_params(params), self.var(var)),
            El::Struct { items, params, var } => format!("{}{}{}{}{}", self.angle.0, self.els(items), self.angle.1, self.opt_params(params), self.var(var)),
            El::Var { n, params } => format!("{n}{}", self.opt_params(params)),
            El::Ellipsis => self.ellipsis.to_string(),
            El::SBound => "$".into(),
            El::WBound => "#".into(),
            El::Opt { items, min, max, form } => {
                let inner = self.els(items);
                match (*min, *max, *form) {
                    (0, 1, 0) => format!("({inner})"),
                    (0, m, 0) | (0, m, 1) => format!("({inner},{m})"),
                    (a, b, _) => format!("({inner},{a}:{b})"),
                }
            }
        }
    }
    pub fn els(&self, es: &[El]) -> String { es.iter().map(|e| self.el(e)).collect::<Vec<_>>().join(" ") }
    pub fn env(&self, e: &Env) -> String {
        let b = self.els(&e.before); let a = self.els(&e.after);
        format!("{}{}_{}{}", b, if b.is_empty() { "" } else { " " }, if a.is_empty() { "" } else { " " }, a)
    }
    pub fn env_spec(&self, s: &EnvSpec) -> String {
        match s {
            EnvSpec::Special(xs) => format!("_,{}", self.els(xs)),
            EnvSpec::List(items) => items.iter().map(|it| match it {
                EnvItem::One(e) => self.env(e),
                EnvItem::Set(es) => format!(":{{ {} }}:", es.iter().map(|e| self.env(e)).collect::<Vec<_>>().join(", ")),
            }).collect::<Vec<_>>().join(", "),
        }
    }
    pub fn side(&self, s: &Side) -> String {
        match s { Side::Star => self.star.to_string(), Side::Amp => "&".into(),
                  Side::Terms(ts) => ts.iter().map(|t| self.els(t)).collect::<Vec<_>>().join(", ") }
    }
    pub fn rule(&self, r: &Rule) -> String {
        let mut s = format!("{} {} {}", self.side(&r.input), self.arrow, self.side(&r.output));
        if let Some(c) = &r.context { s.push_str(" / "); s.push_str(&self.env_spec(c)); }
        if let Some(x) = &r.except { s.push(' '); s.push_str(self.pipe); s.push(' '); s.push_str(&self.env_spec(x)); }
        if let Some(c) = &r.comment { s.push_str(" ;;"); s.push_str(c); }
        s
    }
}

pub fn rule_text(r: &Rule) -> String { Style::default().rule(r) }

// ------------------------------------------------------------------------------------------------
// Groups as the manual defines them (doc.md §Groupings): letter -> list of (feature index, value)

pub fn fidx(name: &str) -> usize { FEATS.iter().position(|f| f.0 == name).expect("feature name") }

pub fn group_def(letter: char) -> Option<Vec<(usize, bool)>> {
    let f = |n: &str, b: bool| (fidx(n), b);
    Some(match letter {
        'C' => vec![f("syll", false)],
        'O' => vec![f("cons", true), f("son", false), f("syll", false)],
        'S' => vec![f("cons", true), f("son", true), f("syll", false)],
        'P' => vec![f("cons", true), f("son", false), f("syll", false), f("delrel", false), f("cont", false)],
        'F' => vec![f("cons", true), f("son", false), f("syll", false), f("approx", false), f("cont", true)],
        'L' => vec![f("cons", true), f("son", true), f("syll", false), f("approx", true)],
        'N' => vec![f("cons", true), f("son", true), f("syll", false), f("approx", false), f("nasal", true)],
        'G' => vec![f("cons", false), f("son", true), f("syll", false)],
        'V' => vec![f("cons", false), f("son", true), f("syll", true)],
        _ => return None,
    })
}
pub const GROUPS: [char; 9] = ['C', 'O', 'S', 'P', 'F', 'L', 'N', 'G', 'V'];
pub fn group_matches(letter: char, s: &MSeg) -> bool { group_def(letter).map(|d| d.iter().all(|(f, b)| s.matches(*f, *b))).unwrap_or(false) }

// ------------------------------------------------------------------------------------------------
// Rule generation (word-directed)

#[derive(Clone, Copy, Debug)]
pub struct RuleProfile {
    pub structures: bool, pub variables: bool, pub alphas: bool, pub optionals: bool, pub ellipsis: bool,
    pub sets: bool, pub env_sets: bool, pub condensed: bool, pub syll: bool, pub supra_params: bool,
    pub insertion: bool, pub deletion: bool, pub metathesis: bool,
    /// `...` between input elements; `$` as an input element; structures / syllable variables in substitution outputs; outputs longer or shorter than the input
    pub input_ellipsis: bool, pub input_bound: bool, pub out_struct: bool, pub uneven: bool,
    /// length modifiers on the outputs of multi-element substitutions
    pub out_length_multi: bool,
    /// probability (percent) that an element is derived from a segment of the companion word
    pub directed: u32,
}
impl RuleProfile {
    pub const FULL: RuleProfile = RuleProfile { structures: true, variables: true, alphas: true, optionals: true, ellipsis: true, sets: true, env_sets: true,
        condensed: true, syll: true, supra_params: true, insertion: true, deletion: true, metathesis: true,
        input_ellipsis: true, input_bound: true, out_struct: true, uneven: true, out_length_multi: true, directed: 65 };
    pub const SEGMENTAL: RuleProfile = RuleProfile { structures: false, variables: false, alphas: false, optionals: true, ellipsis: true, sets: true, env_sets: true,
        condensed: false, syll: false, supra_params: false, insertion: false, deletion: false, metathesis: false,
        input_ellipsis: false, input_bound: false, out_struct: false, uneven: false, out_length_multi: false, directed: 70 };
}

pub struct RuleGen<'a> {
    pub prof: RuleProfile,
    pub segs: Vec<(String, MSeg)>, // segments of the companion word (grapheme, value), flattened
    pub next_var: u32,
    pub vars_seg: Vec<u32>,   // variables bound to a segment so far
    pub vars_syll: Vec<u32>,  // variables bound to a syllable so far
    pub alphas: Vec<(char, PName)>, // alphas bound so far (letter, what it was bound on)
    pub uses: std::collections::BTreeSet<&'static str>,
    /// which of `segs` open a syllable (empty if unknown)
    pub starts: Vec<bool>,
    /// the segment the next segment-matching element is written for (consecutive input elements follow consecutive segments of the word)
    forced: std::cell::Cell<Option<usize>>,
    _p: std::marker::PhantomData<&'a ()>,
}

#[derive(Clone, Copy, PartialEq, Eq, Debug)]
pub enum Where { Input, Output, Context }

impl<'a> RuleGen<'a> {
    pub fn new(prof: RuleProfile, word_segs: Vec<(String, MSeg)>) -> Self {
        let starts = LAST_STARTS.with(|l| { let l = l.borrow(); if l.len() == word_segs.len() { l.clone() } else { vec![] } });
        RuleGen { prof, segs: word_segs, next_var: 1, vars_seg: vec![], vars_syll: vec![], alphas: vec![], uses: Default::default(), starts, forced: Default::default(), _p: Default::default() }
    }

    fn target(&self, t: &mut Tape) -> Option<(String, MSeg)> {
        if let Some(i) = self.forced.take() { if i < self.segs.len() && t.chance(9, 10) { return Some(self.segs[i].clone()) } }
        if !self.segs.is_empty() && t.chance(self.prof.directed, 100) { Some(self.segs[t.pick(self.segs.len())].clone()) } else { None }
    }

    /// 1–3 feature arguments; when `like` is given they are true of that segment
    pub fn feat_args(&mut self, t: &mut Tape, like: Option<&MSeg>, wh: Where) -> Vec<(Sign, PName)> {
        let n = 1 + t.weighted(&[6, 3, 1]);
        let mut args: Vec<(Sign, PName)> = vec![];
        for _ in 0..n {
            let f = t.pick(26);
            if args.iter().any(|(_, p)| *p == PName::Feat(f)) { continue }
            let sign = if self.prof.alphas && t.chance(1, 8) { self.alpha_sign(t, PName::Feat(f), wh) }
                       else { match like.and_then(|s| s.feat(f)) { Some(v) if wh != Where::Output => if v { Sign::Plus } else { Sign::Minus }, _ => if t.chance(1, 2) { Sign::Plus } else { Sign::Minus } } };
            if let (Some(s), Sign::Plus | Sign::Minus, true) = (like, sign, wh != Where::Output) { if s.feat(f).is_none() { continue } }
            args.push((sign, PName::Feat(f)));
        }
        if t.chance(1, 10) {
            let nodes = [PName::Lab, PName::Cor, PName::Dor, PName::Phr, PName::Place];
            let nd = nodes[t.pick(5)];
            let present = |s: &MSeg| match nd { PName::Lab => s.lab.is_some(), PName::Cor => s.cor.is_some(), PName::Dor => s.dor.is_some(), PName::Phr => s.phr.is_some(), _ => s.has_place() };
            let sign = if self.prof.alphas && t.chance(1, 4) { self.alpha_sign(t, nd, wh) }
                       else { match like { Some(s) if wh != Where::Output => if present(s) { Sign::Plus } else { Sign::Minus }, _ => if nd == PName::Place || t.chance(1, 2) { Sign::Minus } else { Sign::Plus } } };
            if !(wh == Where::Output && nd == PName::Place && sign == Sign::Plus) { args.push((sign, nd)); self.uses.insert("node"); }
        }
        args
    }

    fn alpha_sign(&mut self, t: &mut Tape, on: PName, wh: Where) -> Sign {
        self.uses.insert("alpha");
        // reuse a bound alpha of a compatible kind, or (outside the output) bind a new one
        let compatible: Vec<char> = self.alphas.iter().filter(|(_, p)| p.is_node() == on.is_node() && (!on.is_node() || *p == on)).map(|(c, _)| *c).collect();
        if !compatible.is_empty() && (wh == Where::Output || t.chance(1, 2)) {
            let c = compatible[t.pick(compatible.len())];
            return if !on.is_node() && t.chance(1, 4) { Sign::NegAlpha(c) } else { Sign::Alpha(c) };
        }
        if wh == Where::Output { return if t.chance(1, 2) { Sign::Plus } else { Sign::Minus } }
        let c = alpha_char(self.alphas.len());
        self.alphas.push((c, on));
        Sign::Alpha(c)
    }

    pub fn supra_args(&mut self, t: &mut Tape, syll_only: bool, wh: Where) -> (Vec<(Sign, PName)>, Option<u16>) {
        let mut args = vec![]; let mut tone = None;
        let pm = |t: &mut Tape| if t.chance(1, 2) { Sign::Plus } else { Sign::Minus };
        match t.weighted(&[4, 2, 3, 2]) {
            0 => { let s = if self.prof.alphas && t.chance(1, 6) { self.alpha_sign(t, PName::Stress, wh) } else { pm(t) }; args.push((s, PName::Stress)); }
            1 => args.push((pm(t), PName::SecStress)),
            2 if !syll_only => { let s = if self.prof.alphas && t.chance(1, 6) { self.alpha_sign(t, PName::Long, wh) } else { pm(t) };
                                 args.push((s, if t.chance(1, 4) { PName::Overlong } else { PName::Long })); }
            _ => tone = Some(TONES[t.pick(TONES.len())]),
        }
        self.uses.insert("supra");
        (args, tone)
    }

    pub fn params(&mut self, t: &mut Tape, like: Option<&MSeg>, wh: Where, allow_empty: bool) -> Params {
        let mut p = Params::default();
        if allow_empty && t.chance(1, 10) { return p }
        if !self.prof.supra_params || t.chance(3, 4) { p.args = self.feat_args(t, like, wh); }
        if self.prof.supra_params && (p.args.is_empty() || t.chance(1, 5)) {
            let (a, tone) = self.supra_args(t, false, wh); p.args.extend(a); p.tone = tone;
        }
        p
    }

    fn maybe_var(&mut self, t: &mut Tape, wh: Where, syll: bool) -> Option<u32> {
        if self.prof.variables && wh != Where::Output && t.chance(1, 6) {
            let n = self.next_var; self.next_var += 1;
            if syll { self.vars_syll.push(n) } else { self.vars_seg.push(n) }
            self.uses.insert("variable");
            Some(n)
        } else { None }
    }

    /// an element that matches (or, in the output, produces) one segment
    pub fn seg_el(&mut self, t: &mut Tape, wh: Where) -> El {
        let tgt = self.target(t);
        let like = tgt.as_ref().map(|x| &x.1);
        let choice = t.weighted(&[5, 4, 3, if self.prof.variables && !self.vars_seg.is_empty() { 2 } else { 0 }]);
        match choice {
            0 => {
                let text = match &tgt { Some((g, _)) => g.clone(), None => pick_seg(t, 15).text.clone() };
                let params = if t.chance(1, 5) { Some(self.params(t, None, wh, false)) } else { None };
                El::Ipa { text, params }
            }
            1 => { let params = self.params(t, like, wh, wh != Where::Output); let var = self.maybe_var(t, wh, false); El::Matrix { params, var } }
            2 if wh != Where::Output => {
                let cands: Vec<char> = match like { Some(s) => GROUPS.iter().copied().filter(|g| group_matches(*g, s)).collect(), None => GROUPS.to_vec() };
                let letter = if cands.is_empty() { 'C' } else { cands[t.pick(cands.len())] };
                let params = if t.chance(1, 4) { Some(self.params(t, like, wh, false)) } else { None };
                let var = self.maybe_var(t, wh, false);
                self.uses.insert("group");
                El::Group { letter, params, var }
            }
            2 => { let params = self.params(t, None, wh, false); El::Matrix { params, var: None } }
            _ => { let n = self.vars_seg[t.pick(self.vars_seg.len())]; let params = if t.chance(1, 5) { Some(self.params(t, None, Where::Output, false)) } else { None }; El::Var { n, params } }
        }
    }

    pub fn syll_el(&mut self, t: &mut Tape, wh: Where) -> El {
        self.uses.insert("syllable");
        let params = if t.chance(1, 2) { let (a, tone) = self.supra_args(t, true, wh); Some(Params { args: a, tone }) } else { None };
        let var = self.maybe_var(t, wh, true);
        El::Syll { params, var }
    }

    pub fn struct_el(&mut self, t: &mut Tape, wh: Where) -> El {
        self.uses.insert("structure");
        let n = 1 + t.pick(3);
        let mut items = vec![];
        let lead = wh != Where::Output && t.chance(1, 3);
        if lead { items.push(El::Ellipsis); }
        for _ in 0..n {
            let e = if wh == Where::Output { let text = match self.target(t) { Some((g, _)) => g, None => pick_seg(t, 10).text.clone() }; El::Ipa { text, params: None } }
                    else { let save = self.prof.variables; self.prof.variables = false; let e = self.seg_el(t, wh); self.prof.variables = save; e };
            items.push(e);
        }
        if wh != Where::Output && !lead && t.chance(1, 3) { items.push(El::Ellipsis); }
        let params = if t.chance(1, 4) { let (a, tone) = self.supra_args(t, true, wh); Some(Params { args: a, tone }) } else { None };
        let var = self.maybe_var(t, wh, true);
        El::Struct { items, params, var }
    }

    pub fn set_el(&mut self, t: &mut Tape, wh: Where, size: usize) -> El {
        self.uses.insert("set");
        let mut xs = vec![];
        for _ in 0..size {
            let save = (self.prof.variables, self.prof.alphas); self.prof.variables = false; self.prof.alphas = false;
            let e = if wh == Where::Context && t.chance(1, 8) { if t.chance(1, 2) { El::SBound } else { El::WBound } }
                    else if wh != Where::Output && self.prof.syll && t.chance(1, 10) { if wh == Where::Input && !self.prof.input_bound || t.chance(2, 3) { self.syll_el(t, wh) } else { El::SBound } }
                    else { self.seg_el(t, wh) };
            self.prof.variables = save.0; self.prof.alphas = save.1;
            xs.push(e);
        }
        El::Set(xs)
    }

    /// one element of an input term
    pub fn input_el(&mut self, t: &mut Tape) -> El {
        let w = [10, if self.prof.sets { 2 } else { 0 }, if self.prof.syll { 2 } else { 0 }, if self.prof.structures { 1 } else { 0 }, if self.prof.syll && self.prof.input_bound { 1 } else { 0 },
                 if self.prof.syll && self.prof.variables && !self.vars_syll.is_empty() { 2 } else { 0 }];
        match t.weighted(&w) {
            0 => self.seg_el(t, Where::Input),
            1 => { let n = 2 + t.pick(2); self.set_el(t, Where::Input, n) }
            2 => self.syll_el(t, Where::Input),
            3 => self.struct_el(t, Where::Input),
            4 => El::SBound,
            _ => { let n = self.vars_syll[t.pick(self.vars_syll.len())]; El::Var { n, params: None } }
        }
    }

    /// one element of an environment side
    pub fn env_el(&mut self, t: &mut Tape) -> El {
        let p = self.prof;
        let w = [10, if p.sets { 2 } else { 0 }, if p.syll { 2 } else { 0 }, if p.structures { 1 } else { 0 }, 2, if p.optionals { 2 } else { 0 }, if p.ellipsis { 1 } else { 0 },
                 if p.variables && !self.vars_syll.is_empty() { 1 } else { 0 }];
        match t.weighted(&w) {
            0 => self.seg_el(t, Where::Context),
            1 => { let n = 2 + t.pick(2); self.set_el(t, Where::Context, n) }
            2 => self.syll_el(t, Where::Context),
            3 => self.struct_el(t, Where::Context),
            4 => El::SBound,
            5 => {
                self.uses.insert("optional");
                let k = 1 + t.weighted(&[5, 1]);
                let mut items = vec![];
                for _ in 0..k {
                    let save = self.prof.variables; self.prof.variables = false;
                    // the grammar also allows sets (with boundary members), syllables and boundaries inside an optional
                    let it = match t.weighted(&[16, 2, if self.prof.sets { 3 } else { 0 }, if self.prof.syll { 1 } else { 0 }]) { 0 => self.seg_el(t, Where::Context), 1 => El::SBound, 2 => self.set_el(t, Where::Context, 2), _ => self.syll_el(t, Where::Context) };
                    items.push(it);
                    self.prof.variables = save;
                }
                let (min, max, form) = match t.weighted(&[3, 3, 2, 2]) { 0 => (0, 1, 0), 1 => (0, 0, 1), 2 => (0, 1 + t.pick(3) as u32, 1), _ => { let a = t.pick(3) as u32; (a, a + 1 + t.pick(2) as u32, 2) } };
                El::Opt { items, min, max, form }
            }
            6 => { self.uses.insert("ellipsis"); El::Ellipsis }
            _ => { let n = self.vars_syll[t.pick(self.vars_syll.len())]; El::Var { n, params: None } }
        }
    }

    pub fn env(&mut self, t: &mut Tape, allow_empty: bool) -> Env {
        let mut e = Env::default();
        let shape = t.weighted(&[3, 3, 3, if allow_empty { 1 } else { 0 }]); // before only, after only, both, empty
        let nb = if shape == 0 || shape == 2 { 1 + t.weighted(&[6, 3, 1]) } else { 0 };
        let na = if shape == 1 || shape == 2 { 1 + t.weighted(&[6, 3, 1]) } else { 0 };
        for _ in 0..nb { let x = self.env_el(t); e.before.push(x); }
        for _ in 0..na { let x = self.env_el(t); e.after.push(x); }
        // ellipsis / optional need something on their far side to be meaningful; word boundaries only at the periphery
        if t.chance(1, 6) { e.before.insert(0, El::WBound); }
        if t.chance(1, 6) { e.after.push(El::WBound); }
        e
    }

    pub fn env_spec(&mut self, t: &mut Tape, n_terms: usize, insertion: bool) -> EnvSpec {
        if !insertion && self.prof.condensed && t.chance(1, 12) {
            self.uses.insert("special_env");
            let k = 1 + t.pick(2);
            let mut xs = vec![];
            if t.chance(1, 3) { xs.push(El::WBound); }
            for _ in 0..k { let save = (self.prof.variables, self.prof.ellipsis, self.prof.optionals); self.prof.variables = false; self.prof.ellipsis = false; self.prof.optionals = false;
                            let x = self.env_el(t); self.prof.variables = save.0; self.prof.ellipsis = save.1; self.prof.optionals = save.2; xs.push(x); }
            return EnvSpec::Special(xs);
        }
        let n = if n_terms > 1 && t.chance(1, 2) { n_terms } else { 1 };
        let mut items = vec![];
        for _ in 0..n {
            if !insertion && self.prof.env_sets && t.chance(1, 8) {
                self.uses.insert("env_set");
                let k = 2 + t.pick(2);
                let mut es = vec![]; for _ in 0..k { let e = self.env(t, false); es.push(e); }
                items.push(EnvItem::Set(es));
            } else { let e = self.env(t, !insertion); items.push(EnvItem::One(e)); } // a bare `_` is a legal environment (not generated for insertions: listed hang family)
        }
        EnvSpec::List(items)
    }

    pub fn output_for(&mut self, t: &mut Tape, input: &[El]) -> Vec<El> {
        let mut out = vec![];
        for e in input {
            match e {
                El::Ellipsis => {}
                El::SBound => if t.chance(4, 5) { out.push(El::SBound) },
                El::Set(xs) => {
                    if t.chance(3, 4) { let n = xs.len(); let s = self.set_el(t, Where::Output, n); out.push(s); }
                    else { let x = self.seg_el(t, Where::Output); out.push(x); }
                }
                El::Syll { .. } | El::Struct { .. } => {
                    match t.weighted(&[5, 2, 1]) {
                        0 => { let (a, tone) = self.supra_args(t, true, Where::Output); out.push(El::Matrix { params: Params { args: a, tone }, var: None }); }
                        1 if self.prof.structures && self.prof.out_struct => { let s = self.struct_el(t, Where::Output); out.push(s); }
                        _ => if !self.vars_syll.is_empty() && self.prof.out_struct { let n = self.vars_syll[t.pick(self.vars_syll.len())]; out.push(El::Var { n, params: None }) } else { let (a, tone) = self.supra_args(t, true, Where::Output); out.push(El::Matrix { params: Params { args: a, tone }, var: None }); },
                    }
                }
                _ => { let x = self.seg_el(t, Where::Output); out.push(x); }
            }
        }
        // position bookkeeping after a length change is where multi-element substitutions go wrong: one in six of them changes the length of an early element outright
        if self.prof.out_length_multi && input.len() > 1 && out.len() > 1 && t.chance(1, 6) {
            let i = t.pick(out.len() - 1);
            if matches!(out[i], El::Matrix { .. } | El::Ipa { .. } | El::Group { .. }) {
                let (sign, name) = [(Sign::Minus, PName::Long), (Sign::Plus, PName::Long), (Sign::Minus, PName::Overlong), (Sign::Plus, PName::Overlong)][t.weighted(&[4, 3, 2, 1])];
                out[i] = El::Matrix { params: Params { args: vec![(sign, name)], tone: None }, var: None };
            }
        }
        // occasionally shorter or longer than the input
        if self.prof.uneven && out.len() > 1 && t.chance(1, 8) { out.pop(); }
        if self.prof.uneven && t.chance(1, 8) { let x = match t.weighted(&[2, if self.prof.syll { 1 } else { 0 }, 5]) { 0 => El::SBound, 1 => self.syll_el(t, Where::Output), _ => { let text = pick_seg(t, 5).text.clone(); El::Ipa { text, params: None } } }; out.push(x); }
        if out.is_empty() { let x = self.seg_el(t, Where::Output); out.push(x); }
        if !self.prof.out_length_multi && input.len() > 1 {
            let strip = |p: &mut Params| p.args.retain(|(_, n)| !n.is_length());
            for e in out.iter_mut() {
                match e {
                    El::Ipa { params: Some(p), .. } | El::Var { params: Some(p), .. } | El::Matrix { params: p, .. } => strip(p),
                    El::Set(xs) => for x in xs.iter_mut() { match x { El::Ipa { params: Some(p), .. } | El::Matrix { params: p, .. } => strip(p), _ => {} } },
                    _ => {}
                }
            }
        }
        out
    }

    pub fn insertion_output(&mut self, t: &mut Tape) -> Vec<El> {
        let n = 1 + t.weighted(&[6, 2, 1]);
        let mut out = vec![];
        for _ in 0..n {
            let w = [8, 2, if self.prof.syll { 1 } else { 0 }, if self.prof.structures { 1 } else { 0 }, if self.prof.variables && !(self.vars_seg.is_empty() && self.vars_syll.is_empty()) { 3 } else { 0 }];
            out.push(match t.weighted(&w) {
                0 => { let text = match self.target(t) { Some((g, _)) => g, None => pick_seg(t, 10).text.clone() }; let params = if t.chance(1, 6) { Some(self.params(t, None, Where::Output, false)) } else { None }; El::Ipa { text, params } }
                1 => El::SBound,
                2 => self.syll_el(t, Where::Output),
                3 => self.struct_el(t, Where::Output),
                _ => { let all: Vec<u32> = self.vars_seg.iter().chain(self.vars_syll.iter()).copied().collect(); El::Var { n: all[t.pick(all.len())], params: None } }
            });
        }
        out
    }

    pub fn rule(&mut self, t: &mut Tape) -> Rule {
        let p = self.prof;
        let kind = t.weighted(&[10, if p.deletion { 3 } else { 0 }, if p.insertion { 3 } else { 0 }, if p.metathesis { 2 } else { 0 }]);
        let n_terms = if p.condensed && t.chance(1, 8) { self.uses.insert("condensed"); 2 + t.pick(2) } else { 1 };
        let mut gen_input = |g: &mut Self, t: &mut Tape, min: usize| -> Vec<El> {
            let n = (1 + t.weighted(&[6, 3, 1])).max(min);
            let mut v = vec![];
            // half of the multi-element inputs follow consecutive segments (and syllable boundaries) of the word, so that they can match as a whole
            if n >= 2 && !g.segs.is_empty() && t.chance(1, 2) {
                let mut idx = t.pick(g.segs.len());
                let bound = g.prof.syll && g.prof.input_bound && !g.starts.is_empty();
                while v.len() < n {
                    if idx >= g.segs.len() { if bound && t.chance(1, 2) { v.push(El::SBound); } break }
                    if bound && g.starts[idx] && t.chance(1, 3) { v.push(El::SBound); if v.len() >= n { break } }
                    g.forced.set(Some(idx));
                    let e = g.input_el(t);
                    g.forced.set(None);
                    match &e {
                        El::Syll { .. } | El::Struct { .. } => { idx += 1; while idx < g.segs.len() && !g.starts.is_empty() && !g.starts[idx] { idx += 1; } }
                        El::SBound => {}
                        // one element stands for a whole long segment (its copies follow each other in `segs`)
                        _ => { idx += 1; while idx < g.segs.len() && g.segs[idx].1 == g.segs[idx - 1].1 && g.starts.get(idx).map(|b| !*b).unwrap_or(true) { idx += 1; } }
                    }
                    v.push(e);
                }
                if v.len() >= min.max(1) { return v }
                v.clear();
            }
            for i in 0..n {
                let e = g.input_el(t);
                v.push(e);
                if g.prof.ellipsis && g.prof.input_ellipsis && i + 1 < n && t.chance(1, 10) { v.push(El::Ellipsis); g.uses.insert("ellipsis"); }
            }
            v
        };
        match kind {
            2 => {
                // insertion: the context comes first so that variables / alphas bound there can be used in the output
                let ctx = Some(self.env_spec(t, 1, true));
                let except = if t.chance(1, 6) { Some(self.env_spec(t, 1, true)) } else { None };
                let out = self.insertion_output(t);
                Rule { input: Side::Star, output: Side::Terms(vec![out]), context: ctx, except, comment: None }
            }
            _ => {
                let mut inputs = vec![];
                for _ in 0..n_terms { let v = gen_input(self, t, if kind == 3 { 2 } else { 1 }); inputs.push(v); }
                // a condensed rule may mix kinds: one alternative an insertion (`*`), the others substitutions, each with its own environment
                if kind == 0 && n_terms >= 2 && self.prof.insertion && self.prof.condensed && t.chance(1, 5) {
                    self.uses.insert("mixed-condensed");
                    let j = if t.chance(2, 3) { 0 } else { t.pick(n_terms) };
                    inputs[j] = vec![El::Ipa { text: "*".into(), params: None }];
                    let mut outs = vec![];
                    for i in 0..n_terms { let o = if i == j { self.insertion_output(t) } else { self.output_for(t, &inputs[i].clone()) }; outs.push(o); }
                    let envs: Vec<EnvItem> = (0..n_terms).map(|_| EnvItem::One(self.env(t, false))).collect();
                    return Rule { input: Side::Terms(inputs), output: Side::Terms(outs), context: Some(EnvSpec::List(envs)), except: None, comment: None };
                }
                let has_ctx = t.chance(2, 3);
                let ctx = if has_ctx { Some(self.env_spec(t, n_terms, false)) } else { None };
                let except = if t.chance(1, 5) { Some(self.env_spec(t, n_terms, false)) } else { None };
                let output = match kind {
                    1 => Side::Star,
                    3 => Side::Amp,
                    _ => {
                        let k = if self.prof.uneven && n_terms > 1 && t.chance(1, 2) { 1 } else { n_terms };
                        let mut outs = vec![];
                        for i in 0..k { let o = self.output_for(t, &inputs[i.min(inputs.len() - 1)].clone()); outs.push(o); }
                        Side::Terms(outs)
                    }
                };
                Rule { input: Side::Terms(inputs), output, context: ctx, except, comment: None }
            }
        }
    }
}

/// Convenience: parse a generated word with asca (guarded) and return (text, structural word, flattened (grapheme-ish, value) list)
thread_local! { static LAST_STARTS: std::cell::RefCell<Vec<bool>> = const { std::cell::RefCell::new(Vec::new()) }; }

/// the word's segments that have a plain grapheme, flattened; remembers (for the next `RuleGen::new` with exactly this list) which of them open a syllable
pub fn word_segs(w: &asca::verif::Word) -> Vec<(String, MSeg)> {
    let t = tables();
    let mw = MWord::from_asca(w);
    let mut out = vec![]; let mut starts = vec![];
    for sy in &mw.sylls { let mut first = true; for s in &sy.segs { if let Some(g) = t.by_value.get(s) { out.push((g.clone(), *s)); starts.push(first); first = false; } } }
    LAST_STARTS.with(|l| *l.borrow_mut() = starts);
    out
}

pub fn rule_kind(r: &Rule) -> &'static str {
    match (&r.input, &r.output) { (Side::Star, _) => "insertion", (_, Side::Star) => "deletion", (_, Side::Amp) => "metathesis", _ => "substitution" }
}

// ------------------------------------------------------------------------------------------------
// Aliases (romanisers / deromanisers) over fresh strings

pub const FRESH: &[&str] = &["Б", "Г", "Д", "Ж", "З", "Л", "П", "Ф", "Ц", "Ч", "Ш", "Щ", "Э", "Ю", "Я", "汉", "语", "字", "カ", "タ", "ナ"];

fn alias_params(t: &mut Tape, allow_len: bool) -> String {
    let mut parts: Vec<String> = vec![];
    match t.pick(if allow_len { 5 } else { 3 }) {
        0 => parts.push(format!("{}stress", if t.chance(1, 2) { "+" } else { "-" })),
        1 => parts.push(format!("tone:{}", TONES[1 + t.pick(TONES.len() - 1)])),
        2 => { let f = t.pick(26); parts.push(format!("{}{}", if t.chance(1, 2) { "+" } else { "-" }, FEATS[f].0)); }
        3 => parts.push(format!("{}long", if t.chance(1, 2) { "+" } else { "-" })),
        _ => { parts.push("+stress".into()); parts.push("+long".into()); }
    }
    format!("[{}]", parts.join(", "))
}

/// 1–3 romaniser lines; inputs are taken from the given word segments so that they apply. Returns (lines, uses_plus).
pub fn gen_romanisers(t: &mut Tape, segs: &[(String, MSeg)]) -> (Vec<String>, bool) {
    let n = 1 + t.weighted(&[5, 3, 1]);
    let mut lines = vec![]; let mut plus = false; let mut fresh_i = t.pick(FRESH.len());
    for _ in 0..n {
        let k = 1 + t.weighted(&[5, 3, 2]);
        let mut ins = vec![]; let mut outs = vec![];
        for _ in 0..k {
            let start = if segs.is_empty() { 0 } else { t.pick(segs.len()) };
            let (mut inp, mut is_matrix) = match t.weighted(&[6, 2, 2, 1]) {
                0 => { let g = if !segs.is_empty() && t.chance(4, 5) { segs[start].0.clone() } else { pick_seg(t, 10).text.clone() };
                       (if t.chance(1, 3) { format!("{g}:{}", alias_params(t, true)) } else { g }, false) }
                1 => { let g = GROUPS[t.pick(GROUPS.len())]; (if t.chance(1, 2) { format!("{g}:{}", alias_params(t, true)) } else { g.to_string() }, true) }
                2 => (alias_params(t, false), true),
                _ => ("$".to_string(), false),
            };
            // sequences of 2-3 elements (`kV`, `xan:[tone:51]`, `n[+nasal]`), following the word's segments across its syllable ends
            if inp != "$" && t.chance(1, 4) {
                for j in 1..=(1 + t.weighted(&[3, 1])) {
                    let g = if start + j < segs.len() && t.chance(4, 5) { segs[start + j].0.clone() } else { pick_seg(t, 10).text.clone() };
                    let el = match t.weighted(&[4, 2, 2, 2]) { 0 => g, 1 => format!("{g}:{}", alias_params(t, true)), 2 => { let gr = GROUPS[t.pick(GROUPS.len())]; if t.chance(1, 3) { format!("{gr}:{}", alias_params(t, true)) } else { gr.to_string() } }, _ => alias_params(t, false) };
                    inp.push_str(&el);
                }
                is_matrix = false;
            }
            let out = if inp == "$" { if t.chance(2, 3) { "*".to_string() } else { FRESH[fresh_i % FRESH.len()].to_string() } }
                      else { match t.weighted(&[6, if is_matrix { 5 } else { 2 }, 1]) { 0 => FRESH[fresh_i % FRESH.len()].to_string(), 1 => { plus = true; format!("+{}", FRESH[fresh_i % FRESH.len()]) }, _ => "*".to_string() } };
            fresh_i += 1;
            ins.push(inp); outs.push(out);
        }
        lines.push(format!("{} > {}", ins.join(", "), outs.join(", ")));
    }
    (lines, plus)
}

/// 1–2 deromaniser lines mapping fresh strings to IPA (+modifiers); returns (lines, table fresh -> ipa text with modifiers spelled as word text)
pub fn gen_deromanisers(t: &mut Tape) -> (Vec<String>, Vec<(String, String)>) {
    let n = 1 + t.weighted(&[3, 2]);
    let mut lines = vec![]; let mut table = vec![]; let mut fresh_i = t.pick(FRESH.len());
    for _ in 0..n {
        let k = 1 + t.weighted(&[4, 3, 2]);
        let mut ins = vec![]; let mut outs = vec![];
        for _ in 0..k {
            let fresh = FRESH[fresh_i % FRESH.len()].to_string(); fresh_i += 1;
            let ps = pick_seg(t, 20);
            let (out, plain) = match t.weighted(&[5, 2, 1]) {
                0 => (ps.text.clone(), ps.text.clone()),
                1 => (format!("{}:[+long]", ps.text), format!("{}ː", ps.text)),
                _ => { let ps2 = pick_seg(t, 0); (format!("{}{}", ps.text, ps2.text), format!("{}{}", ps.text, ps2.text)) }
            };
            if table.iter().any(|(f, _): &(String, String)| *f == fresh) { continue }
            ins.push(fresh.clone()); outs.push(out); table.push((fresh, plain));
        }
        if !ins.is_empty() { lines.push(format!("{} > {}", ins.join(", "), outs.join(", "))); }
    }
    (lines, table)
}
