//! Guarded calls into asca: every call runs under `catch_unwind` with a step budget, so that a panic or a
//! non-terminating loop in the code under test becomes a value the oracles can reason about.

use asca::verif::{self, BudgetExhausted, Word};
use asca::{Error, RuleGroup};
use std::cell::RefCell;
use std::collections::HashMap;
use std::panic::{catch_unwind, AssertUnwindSafe};

#[derive(Debug, Clone)]
pub enum Abn {
    /// panic: signature "panic|file|function|masked message"
    Panic(String),
    /// step budget exhausted: dominant loop site
    Budget { dominant: u32, last: u32, rule_type: u32 },
}
pub fn rule_type_name(t: u32) -> &'static str { match t { 0 => "substitution", 1 => "metathesis", 2 => "deletion", 3 => "insertion", _ => "outside-rule" } }
impl Abn {
    pub fn signature(&self) -> String {
        match self {
            Abn::Panic(s) => s.clone(),
            Abn::Budget { dominant, rule_type, .. } => format!("budget|{}|site{dominant}", rule_type_name(*rule_type)),
        }
    }
}

pub type Guarded<T> = Result<Result<T, Error>, Abn>;

thread_local! {
    static LAST_PANIC: RefCell<Option<String>> = const { RefCell::new(None) };
    static LAST_TICKS: std::cell::Cell<u64> = const { std::cell::Cell::new(0) };
    static FN_CACHE: RefCell<HashMap<(String, u32), String>> = RefCell::new(HashMap::new());
    static SRC_CACHE: RefCell<HashMap<(String, u32), String>> = RefCell::new(HashMap::new());
}

pub const DEFAULT_BUDGET: u64 = 300_000;
static SHRINKING: std::sync::atomic::AtomicBool = std::sync::atomic::AtomicBool::new(false);
/// While proptest shrinks a failing case, budgets are divided by 8 (a loop that never ends exhausts any budget);
/// the shrunk case is re-checked under the full budget before it is reported.
pub fn is_shrinking() -> bool { SHRINKING.load(std::sync::atomic::Ordering::Relaxed) }
pub fn set_shrinking(on: bool) { SHRINKING.store(on, std::sync::atomic::Ordering::Relaxed); }

fn mask_numbers(s: &str) -> String {
    let mut out = String::new();
    let mut in_num = false;
    for c in s.chars() {
        if c.is_ascii_digit() { if !in_num { out.push('N'); in_num = true; } } else { in_num = false; out.push(c); }
    }
    out
}

fn enclosing_fn() -> String {
    let bt = std::backtrace::Backtrace::force_capture().to_string();
    // frames look like "  11: input_match_structure" followed by "             at /repo/src/subrule.rs:2161:84";
    // the innermost frame whose source file is under /repo/src (inlined std frames come first) names the enclosing function
    let mut sym = String::new();
    for line in bt.lines() {
        let l = line.trim();
        if let Some(loc) = l.strip_prefix("at ") {
            if loc.starts_with("/repo/src/") && !loc.starts_with("/repo/src/verif.rs") {
                let name = sym.split("::{{closure}}").next().unwrap_or(&sym);
                let name = name.split('<').next().unwrap_or(name);
                return name.rsplit("::").next().unwrap_or(name).to_string();
            }
        } else if let Some((idx, rest)) = l.split_once(": ") {
            if !idx.is_empty() && idx.chars().all(|c| c.is_ascii_digit()) { sym = rest.trim().to_string(); }
        }
    }
    "?".to_string()
}

pub fn init() {
    static ONCE: std::sync::Once = std::sync::Once::new();
    ONCE.call_once(|| {
        std::env::set_var("NO_COLOR", "1");
        std::panic::set_hook(Box::new(|info| {
            let (file, line) = info.location().map(|l| (l.file().to_string(), l.line())).unwrap_or(("?".into(), 0));
            let msg = if let Some(s) = info.payload().downcast_ref::<&str>() { s.to_string() }
                      else if let Some(s) = info.payload().downcast_ref::<String>() { s.clone() } else { "?".to_string() };
            let short_file = file.rsplit("/repo/").next().unwrap_or(&file).to_string();
            let is_asca = file.contains("/repo/") || short_file.starts_with("src/");
            let func = if is_asca {
                FN_CACHE.with(|c| c.borrow_mut().entry((file.clone(), line)).or_insert_with(enclosing_fn).clone())
            } else { enclosing_fn() };
            // the last field is the rule type of the sub-rule that was running (or outside-rule): the enclosing function alone is too coarse,
            // `SubRule::apply` with everything inlined into it covers all four rule types
            // … and the text of the source line that panicked (white space removed, at most 60 characters): a function such as `SubRule::substitution` has dozens of
            // index expressions; the line text tells them apart and, unlike a line number, survives edits elsewhere in the file
            let src = if is_asca { SRC_CACHE.with(|c| c.borrow_mut().entry((file.clone(), line)).or_insert_with(|| {
                let norm = |l: &str| l.chars().filter(|c| !c.is_whitespace()).take(60).collect::<String>().replace('|', "¦");
                std::fs::read_to_string(&file).ok().and_then(|t| { let ls: Vec<&str> = t.lines().collect(); let i = line.saturating_sub(1) as usize; ls.get(i).map(|l| { let n = norm(l);
                    // the same statement often occurs in several match arms: `#k` = it is the k-th line of the file with this text
                    let k = ls[..=i].iter().filter(|x| norm(x) == n).count(); format!("{n}#{k}") }) }).unwrap_or_default()
            }).clone()) } else { String::new() };
            let sig = format!("panic|{}|{}|{}|{}|{}", if is_asca { short_file } else { "<dep>".into() }, func, mask_numbers(msg.lines().next().unwrap_or("")), rule_type_name(verif::phase()), src);
            LAST_PANIC.with(|p| *p.borrow_mut() = Some(sig));
        }));
        // force the lazily initialised tables outside any guarded call
        let _ = asca::run(&[RuleGroup::from_rules(vec!["a > e".into()])], &["pa".to_string()], &[], &[]);
    });
}

pub fn guarded<T>(budget: u64, f: impl FnOnce() -> Result<T, Error>) -> Guarded<T> {
    let budget = if budget > 0 && SHRINKING.load(std::sync::atomic::Ordering::Relaxed) { (budget / 8).max(2_000) } else { budget };
    verif::set_budget(budget);
    let r = catch_unwind(AssertUnwindSafe(f));
    LAST_TICKS.with(|t| t.set(verif::ticks()));
    verif::set_budget(0);
    match r {
        Ok(x) => Ok(x),
        Err(payload) => {
            if let Some(b) = payload.downcast_ref::<BudgetExhausted>() {
                Err(Abn::Budget { dominant: b.dominant_site, last: b.last_site, rule_type: b.rule_type })
            } else {
                let sig = LAST_PANIC.with(|p| p.borrow_mut().take()).unwrap_or_else(|| "panic|?|?|?|?|".into());
                Err(Abn::Panic(sig))
            }
        }
    }
}

/// guarded call that is not expected to return an asca Error (formatters etc.)
pub fn guarded_plain<T>(budget: u64, f: impl FnOnce() -> T) -> Result<T, Abn> {
    match guarded(budget, || Ok(f())) { Ok(Ok(x)) => Ok(x), Ok(Err(_)) => unreachable!(), Err(a) => Err(a) }
}

/// ticks consumed by the most recent guarded call on this thread
pub fn last_ticks() -> u64 { LAST_TICKS.with(|t| t.get()) }

pub fn groups(rules: &[String]) -> Vec<RuleGroup> { vec![RuleGroup::from_rules(rules.to_vec())] }

pub fn run(groups: &[RuleGroup], words: &[String], into: &[String], from: &[String]) -> Guarded<Vec<String>> {
    guarded(DEFAULT_BUDGET, || asca::run(groups, words, into, from))
}

pub fn run1(rules: &[String], word: &str) -> Guarded<String> {
    let g = groups(rules);
    guarded(DEFAULT_BUDGET, || asca::run(&g, &[word.to_string()], &[], &[]).map(|mut v| v.pop().unwrap_or_default()))
}

pub fn parse_word(text: &str) -> Guarded<Word> { guarded(DEFAULT_BUDGET, || verif::parse_word(text, &[])) }
pub fn parse_word_with(text: &str, into: &[String]) -> Guarded<Word> { guarded(DEFAULT_BUDGET, || verif::parse_word(text, into)) }
pub fn render_word(w: &Word) -> Guarded<String> { guarded(DEFAULT_BUDGET, || verif::render_word(w, &[])) }

/// Applies rule groups structurally: the word after each group.
pub fn apply_groups(groups: &[RuleGroup], w: &Word) -> Guarded<Vec<Word>> {
    guarded(DEFAULT_BUDGET, || { let c = verif::compile(groups)?; c.apply_groups(w) })
}

/// Applies a flat rule list structurally and returns the final word.
pub fn apply_rules(rules: &[String], w: &Word) -> Guarded<Word> {
    let g = groups(rules);
    guarded(DEFAULT_BUDGET, || { let c = verif::compile(&g)?; Ok(c.apply_groups(w)?.pop().unwrap_or_else(|| w.clone())) })
}

pub fn err_variant(e: &Error) -> String {
    let d = format!("{e:?}");
    // "RuleRun(UnknownVariable(..))" -> "RuleRun(UnknownVariable)"
    let Some(i) = d.find('(') else { return d };
    let outer = &d[..i];
    let inner: String = d[i + 1..].chars().take_while(|c| c.is_alphanumeric() || *c == '_').collect();
    format!("{outer}({inner})")
}

/// Formats an error the way the CLI / web front end does (the matching formatter for its kind), guarded.
pub fn format_error(e: &Error, groups: &[RuleGroup], words: &[String], into: &[String], from: &[String]) -> Result<String, Abn> {
    use asca::ASCAError;
    guarded_plain(DEFAULT_BUDGET, || match e {
        Error::WordSyn(x) => x.format_word_error(words),
        Error::WordRun(x) => x.format_word_error(words),
        Error::AliasSyn(x) => x.format_alias_error(into, from),
        Error::AliasRun(x) => x.format_alias_error(into, from),
        Error::RuleSyn(x) => x.format_rule_error(groups),
        Error::RuleRun(x) => x.format_rule_error(groups),
    })
}
