//! Guarded calls into asca: every call runs under `catch_unwind` with a step budget, so that a panic or a
//! non-terminating loop in the code under test becomes a value the oracles can reason about.

use asca::verif::{self, BudgetExhausted, Word};
use asca::{Error, RuleGroup};
use std::cell::RefCell;
use std::collections::HashMap;
use std::panic::{catch_unwind, AssertUnwindSafe};

#[derive(Debug, Clone)]
pub enum Abn {
    /// panic: signature "panic|file|function|masked message"
    Panic(String),
    /// step budget exhausted: dominant loop site
    Budget { dominant: u32, last: u32 },
}
impl Abn {
    pub fn signature(&self) -> String {
        match self {
            Abn::Panic(s) => s.clone(),
            Abn::Budget { dominant, .. } => format!("budget|site{dominant}"),
        }
    }
}

pub type Guarded<T> = Result<Result<T, Error>, Abn>;

thread_local! {
    static LAST_PANIC: RefCell<Option<String>> = const { RefCell::new(None) };
    static FN_CACHE: RefCell<HashMap<(String, u32), String>> = RefCell::new(HashMap::new());
}

pub const DEFAULT_BUDGET: u64 = 3_000_000;

fn mask_numbers(s: &str) -> String {
    let mut out = String::new();
    let mut in_num = false;
    for c in s.chars() {
        if c.is_ascii_digit() { if !in_num { out.push('N'); in_num = true; } } else { in_num = false; out.push(c); }
    }
    out
}

fn enclosing_fn() -> String {
    let bt = std::backtrace::Backtrace::force_capture().to_string();
    // frames look like "  12: asca::subrule::SubRule::apply" ; take the first asca:: frame that is not a hook or a closure shim
    for line in bt.lines() {
        let l = line.trim();
        if let Some(idx) = l.find("asca::") {
            let name = &l[idx..];
            if name.starts_with("asca::verif") { continue }
            let name = name.split("::{{closure}}").next().unwrap_or(name);
            // drop hash suffix ::h0123...
            let name = match name.rfind("::h") { Some(i) if name.len() - i == 19 => &name[..i], _ => name };
            return name.to_string();
        }
    }
    "?".to_string()
}

pub fn init() {
    static ONCE: std::sync::Once = std::sync::Once::new();
    ONCE.call_once(|| {
        std::env::set_var("NO_COLOR", "1");
        std::panic::set_hook(Box::new(|info| {
            let (file, line) = info.location().map(|l| (l.file().to_string(), l.line())).unwrap_or(("?".into(), 0));
            let msg = if let Some(s) = info.payload().downcast_ref::<&str>() { s.to_string() }
                      else if let Some(s) = info.payload().downcast_ref::<String>() { s.clone() } else { "?".to_string() };
            let short_file = file.rsplit("/repo/").next().unwrap_or(&file).to_string();
            let is_asca = file.contains("/repo/") || short_file.starts_with("src/");
            let func = if is_asca {
                FN_CACHE.with(|c| c.borrow_mut().entry((file.clone(), line)).or_insert_with(enclosing_fn).clone())
            } else { enclosing_fn() };
            let sig = format!("panic|{}|{}|{}", if is_asca { short_file } else { "<dep>".into() }, func, mask_numbers(msg.lines().next().unwrap_or("")));
            LAST_PANIC.with(|p| *p.borrow_mut() = Some(sig));
        }));
        // force the lazily initialised tables outside any guarded call
        let _ = asca::run(&[RuleGroup::from_rules(vec!["a > e".into()])], &["pa".to_string()], &[], &[]);
    });
}

pub fn guarded<T>(budget: u64, f: impl FnOnce() -> Result<T, Error>) -> Guarded<T> {
    verif::set_budget(budget);
    let r = catch_unwind(AssertUnwindSafe(f));
    verif::set_budget(0);
    match r {
        Ok(x) => Ok(x),
        Err(payload) => {
            if let Some(b) = payload.downcast_ref::<BudgetExhausted>() {
                Err(Abn::Budget { dominant: b.dominant_site, last: b.last_site })
            } else {
                let sig = LAST_PANIC.with(|p| p.borrow_mut().take()).unwrap_or_else(|| "panic|?|?|?".into());
                Err(Abn::Panic(sig))
            }
        }
    }
}

/// guarded call that is not expected to return an asca Error (formatters etc.)
pub fn guarded_plain<T>(budget: u64, f: impl FnOnce() -> T) -> Result<T, Abn> {
    match guarded(budget, || Ok(f())) { Ok(Ok(x)) => Ok(x), Ok(Err(_)) => unreachable!(), Err(a) => Err(a) }
}

pub fn ticks() -> u64 { verif::ticks() }

pub fn groups(rules: &[String]) -> Vec<RuleGroup> { vec![RuleGroup::from_rules(rules.to_vec())] }

pub fn run(groups: &[RuleGroup], words: &[String], into: &[String], from: &[String]) -> Guarded<Vec<String>> {
    guarded(DEFAULT_BUDGET, || asca::run(groups, words, into, from))
}

pub fn run1(rules: &[String], word: &str) -> Guarded<String> {
    let g = groups(rules);
    guarded(DEFAULT_BUDGET, || asca::run(&g, &[word.to_string()], &[], &[]).map(|mut v| v.pop().unwrap_or_default()))
}

pub fn parse_word(text: &str) -> Guarded<Word> { guarded(DEFAULT_BUDGET, || verif::parse_word(text, &[])) }
pub fn parse_word_with(text: &str, into: &[String]) -> Guarded<Word> { guarded(DEFAULT_BUDGET, || verif::parse_word(text, into)) }
pub fn render_word(w: &Word) -> Guarded<String> { guarded(DEFAULT_BUDGET, || verif::render_word(w, &[])) }

/// Applies rule groups structurally: the word after each group.
pub fn apply_groups(groups: &[RuleGroup], w: &Word) -> Guarded<Vec<Word>> {
    guarded(DEFAULT_BUDGET, || { let c = verif::compile(groups)?; c.apply_groups(w) })
}

/// Applies a flat rule list structurally and returns the final word.
pub fn apply_rules(rules: &[String], w: &Word) -> Guarded<Word> {
    let g = groups(rules);
    guarded(DEFAULT_BUDGET, || { let c = verif::compile(&g)?; Ok(c.apply_groups(w)?.pop().unwrap_or_else(|| w.clone())) })
}

pub fn err_variant(e: &Error) -> String {
    let d = format!("{e:?}");
    // "RuleRun(UnknownVariable(...))" -> "RuleRun(UnknownVariable"
    let mut depth = 0; let mut out = String::new();
    for c in d.chars() {
        if c == '(' || c == '{' { depth += 1; if depth > 2 { break } }
        if c == ' ' && depth >= 2 { break }
        out.push(c);
        if depth >= 2 && (c == ')' ) { break }
    }
    out.trim_end_matches('(').to_string()
}
