//! The harness's own representation of segments / syllables / words (not asca's 16-bit place packing),
//! the feature chart typed in from doc/doc.md, and readers for cardinals.json / diacritics.json.

use asca::verif::{StressKind, Word};
use asca::Segment;
use serde_json::{json, Value};
use std::collections::BTreeMap;
use std::sync::OnceLock;

/// A segment as (root:3 bits, manner:8 bits, laryngeal:3 bits, four optional place sub-nodes).
/// Bit order inside a node follows the documented order, first feature = most significant bit.
#[derive(Clone, Copy, PartialEq, Eq, Hash, Debug, PartialOrd, Ord)]
pub struct MSeg { pub root: u8, pub manner: u8, pub lar: u8, pub lab: Option<u8>, pub cor: Option<u8>, pub dor: Option<u8>, pub phr: Option<u8> }

#[derive(Clone, Copy, PartialEq, Eq, Hash, Debug)]
pub enum Node { Root, Manner, Lar, Lab, Cor, Dor, Phr }

/// (canonical lower-case name, node, bit mask within the node) for the 26 features, in chart order.
pub const FEATS: [(&str, Node, u8); 26] = [
    ("cons", Node::Root, 0b100), ("son", Node::Root, 0b010), ("syll", Node::Root, 0b001),
    ("cont", Node::Manner, 0b1000_0000), ("approx", Node::Manner, 0b0100_0000), ("lat", Node::Manner, 0b0010_0000),
    ("nasal", Node::Manner, 0b0001_0000), ("delrel", Node::Manner, 0b0000_1000), ("strid", Node::Manner, 0b0000_0100),
    ("rhotic", Node::Manner, 0b0000_0010), ("click", Node::Manner, 0b0000_0001),
    ("voice", Node::Lar, 0b100), ("sg", Node::Lar, 0b010), ("cg", Node::Lar, 0b001),
    ("labdent", Node::Lab, 0b10), ("round", Node::Lab, 0b01),
    ("ant", Node::Cor, 0b10), ("dist", Node::Cor, 0b01),
    ("front", Node::Dor, 0b100000), ("back", Node::Dor, 0b010000), ("high", Node::Dor, 0b001000),
    ("low", Node::Dor, 0b000100), ("tense", Node::Dor, 0b000010), ("red", Node::Dor, 0b000001),
    ("atr", Node::Phr, 0b10), ("rtr", Node::Phr, 0b01),
];
/// names used in diacritics.json for the same 26 features, same order
pub const FEAT_JSON: [&str; 26] = ["Consonantal", "Sonorant", "Syllabic", "Continuant", "Approximant", "Lateral", "Nasal", "DelayedRelease",
    "Strident", "Rhotic", "Click", "Voice", "SpreadGlottis", "ConstrGlottis", "Labiodental", "Round", "Anterior", "Distributed",
    "Front", "Back", "High", "Low", "Tense", "Reduced", "AdvancedTongueRoot", "RetractedTongueRoot"];
/// place sub-nodes usable with +/- in a matrix: (name, node)
pub const SUBNODES: [(&str, Node); 4] = [("lab", Node::Lab), ("cor", Node::Cor), ("dor", Node::Dor), ("phr", Node::Phr)];

impl MSeg {
    pub fn node(&self, n: Node) -> Option<u8> {
        match n { Node::Root => Some(self.root), Node::Manner => Some(self.manner), Node::Lar => Some(self.lar),
                  Node::Lab => self.lab, Node::Cor => self.cor, Node::Dor => self.dor, Node::Phr => self.phr }
    }
    pub fn set_node(&mut self, n: Node, v: Option<u8>) {
        match n { Node::Root => self.root = v.unwrap_or(0), Node::Manner => self.manner = v.unwrap_or(0), Node::Lar => self.lar = v.unwrap_or(0),
                  Node::Lab => self.lab = v, Node::Cor => self.cor = v, Node::Dor => self.dor = v, Node::Phr => self.phr = v }
    }
    /// value of a feature: None when its node is absent
    pub fn feat(&self, f: usize) -> Option<bool> { let (_, n, m) = FEATS[f]; self.node(n).map(|v| v & m != 0) }
    /// matrix match of `±F`: node present and bit equal
    pub fn matches(&self, f: usize, positive: bool) -> bool { self.feat(f) == Some(positive) }
    /// output `[+F]`: create node (other bits 0) and set; `[-F]`: clear if node present, else nothing
    pub fn set_feat(&mut self, f: usize, positive: bool) {
        let (_, n, m) = FEATS[f];
        if positive { let v = self.node(n).unwrap_or(0); self.set_node(n, Some(v | m)); }
        else if let Some(v) = self.node(n) { self.set_node(n, Some(v & !m)); }
    }
    pub fn has_place(&self) -> bool { self.lab.is_some() || self.cor.is_some() || self.dor.is_some() || self.phr.is_some() }

    pub fn from_asca(s: &Segment) -> MSeg {
        let (lab, cor, dor, phr) = s.get_place_sub_nodes();
        MSeg { root: s.root, manner: s.manner, lar: s.laryngeal, lab, cor, dor, phr }
    }
    pub fn to_asca(&self) -> Segment {
        let mut s = Segment { root: self.root, manner: self.manner, laryngeal: self.lar, place: asca::Place::default() };
        s.place.set_labial(self.lab); s.place.set_coronal(self.cor); s.place.set_dorsal(self.dor); s.place.set_pharyngeal(self.phr);
        s
    }
    pub fn to_json(&self) -> Value { json!([self.root, self.manner, self.lar, self.lab, self.cor, self.dor, self.phr]) }
    pub fn from_json(v: &Value) -> MSeg {
        let o = |i: usize| v[i].as_u64().map(|x| x as u8);
        MSeg { root: o(0).unwrap_or(0), manner: o(1).unwrap_or(0), lar: o(2).unwrap_or(0), lab: o(3), cor: o(4), dor: o(5), phr: o(6) }
    }
    /// from the raw JSON layout of cardinals.json, decoding the documented 16-bit place layout
    pub fn from_cardinal(v: &Value) -> MSeg {
        let place = v["place"].as_u64();
        let mut s = MSeg { root: v["root"].as_u64().unwrap_or(0) as u8, manner: v["manner"].as_u64().unwrap_or(0) as u8,
                           lar: v["laryngeal"].as_u64().unwrap_or(0) as u8, lab: None, cor: None, dor: None, phr: None };
        if let Some(p) = place {
            let p = p as u16;
            if p & 0x8000 != 0 { s.lab = Some(((p >> 10) & 0b11) as u8); }
            if p & 0x4000 != 0 { s.cor = Some(((p >> 8) & 0b11) as u8); }
            if p & 0x2000 != 0 { s.dor = Some(((p >> 2) & 0b111111) as u8); }
            if p & 0x1000 != 0 { s.phr = Some((p & 0b11) as u8); }
        }
        s
    }
}

#[derive(Clone, PartialEq, Eq, Hash, Debug)]
pub struct MSyll { pub segs: Vec<MSeg>, pub stress: u8, pub tone: u16 } // stress: 0 none, 1 primary, 2 secondary
#[derive(Clone, PartialEq, Eq, Hash, Debug)]
pub struct MWord { pub sylls: Vec<MSyll> }

pub fn stress_code(s: StressKind) -> u8 { match s { StressKind::Unstressed => 0, StressKind::Primary => 1, StressKind::Secondary => 2 } }
pub fn stress_kind(c: u8) -> StressKind { match c { 1 => StressKind::Primary, 2 => StressKind::Secondary, _ => StressKind::Unstressed } }

impl MWord {
    pub fn from_asca(w: &Word) -> MWord {
        MWord { sylls: w.syllables.iter().map(|s| MSyll { segs: s.segments.iter().map(MSeg::from_asca).collect(), stress: stress_code(s.stress), tone: s.tone }).collect() }
    }
    pub fn to_asca(&self) -> Word {
        asca::verif::word_from_parts(self.sylls.iter().map(|s| (s.segs.iter().map(|x| x.to_asca()).collect(), stress_kind(s.stress), s.tone)).collect())
    }
    pub fn flat(&self) -> Vec<MSeg> { self.sylls.iter().flat_map(|s| s.segs.iter().copied()).collect() }
    pub fn nsegs(&self) -> usize { self.sylls.iter().map(|s| s.segs.len()).sum() }
    /// readable form: graphemes where an exact base exists, else the raw bundle
    pub fn show(&self) -> String {
        let t = tables();
        let mut out = String::new();
        for (i, s) in self.sylls.iter().enumerate() {
            match s.stress { 1 => out.push('ˈ'), 2 => out.push('ˌ'), _ => if i > 0 { out.push('.') } }
            for g in &s.segs {
                match t.by_value.get(g) { Some(name) => out.push_str(name), None => out.push_str(&format!("⟦{},{},{},{:?},{:?},{:?},{:?}⟧", g.root, g.manner, g.lar, g.lab, g.cor, g.dor, g.phr)) }
            }
            if s.segs.is_empty() { out.push_str("∅"); }
            if s.tone != 0 { out.push_str(&s.tone.to_string()); }
        }
        if self.sylls.is_empty() { out.push_str("<no syllables>"); }
        out
    }
    pub fn to_json(&self) -> Value {
        json!(self.sylls.iter().map(|s| json!({"segs": s.segs.iter().map(|x| x.to_json()).collect::<Vec<_>>(), "stress": s.stress, "tone": s.tone})).collect::<Vec<_>>())
    }
    /// the prosodic tier: (segments per syllable, stress, tone)
    pub fn prosody(&self) -> Vec<(usize, u8, u16)> { self.sylls.iter().map(|s| (s.segs.len(), s.stress, s.tone)).collect() }
}

#[derive(Clone, Debug)]
pub struct Dia { pub name: String, pub ch: char, pub prereq_feats: Vec<(usize, bool)>, pub prereq_nodes: Vec<(Node, bool)>, pub payload_feats: Vec<(usize, bool)>, pub payload_nodes: Vec<(Node, bool)> }

pub struct Tables {
    /// base graphemes in file order
    pub bases: Vec<(String, MSeg)>,
    pub by_name: BTreeMap<String, MSeg>,
    /// one grapheme per distinct value (the lexicographically smallest)
    pub by_value: BTreeMap<MSeg, String>,
    pub dias: Vec<Dia>,
}

fn node_of_json(name: &str) -> Option<Node> {
    match name { "Labial" => Some(Node::Lab), "Coronal" => Some(Node::Cor), "Dorsal" => Some(Node::Dor), "Pharyngeal" => Some(Node::Phr), _ => None }
}

pub fn tables() -> &'static Tables {
    static T: OnceLock<Tables> = OnceLock::new();
    T.get_or_init(|| {
        let card = std::fs::read_to_string("/repo/src/cardinals.json").expect("read cardinals.json");
        // keep file order: parse with the order-preserving trick of scanning keys
        let v: Value = serde_json::from_str(&card).expect("parse cardinals.json");
        let obj = v.as_object().expect("cardinals object");
        let mut bases: Vec<(String, MSeg)> = obj.iter().map(|(k, v)| (k.clone(), MSeg::from_cardinal(v))).collect();
        bases.sort_by(|a, b| a.0.cmp(&b.0));
        let by_name: BTreeMap<String, MSeg> = bases.iter().cloned().collect();
        let mut by_value: BTreeMap<MSeg, String> = BTreeMap::new();
        for (k, s) in &bases { by_value.entry(*s).or_insert_with(|| k.clone()); }
        let dj: Value = serde_json::from_str(&std::fs::read_to_string("/repo/src/diacritics.json").expect("read diacritics.json")).expect("parse diacritics.json");
        let mut dias = vec![];
        for d in dj.as_array().expect("diacritics array") {
            let conv = |m: &Value| -> (Vec<(usize, bool)>, Vec<(Node, bool)>) {
                let mut fs = vec![]; let mut ns = vec![];
                if let Some(o) = m.as_object() {
                    for (k, v) in o {
                        let b = v.as_bool().unwrap_or(false);
                        if let Some(i) = FEAT_JSON.iter().position(|x| x == k) { fs.push((i, b)); }
                        else if let Some(n) = node_of_json(k) { ns.push((n, b)); }
                    }
                }
                fs.sort(); (fs, ns)
            };
            let (pf, pn) = conv(&d["prereqs"]); let (yf, yn) = conv(&d["payload"]);
            dias.push(Dia { name: d["name"].as_str().unwrap_or("").to_string(), ch: d["diacrit"].as_str().unwrap_or("?").chars().next().unwrap(),
                            prereq_feats: pf, prereq_nodes: pn, payload_feats: yf, payload_nodes: yn });
        }
        Tables { bases, by_name, by_value, dias }
    })
}
