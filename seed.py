#!/usr/bin/env python3
"""seed.py <ID> [<check id> ...] [--name <dir name>]
Confirms a seeded change produced by a sub-agent in its scratch worktree /tmp/wt/<ID> (patch.diff + demo.rs):
  1. the patch applies to a clean checkout, the crate builds and the repository's 144 tests pass with it;
  2. the demonstration fails with the patch and passes without it;
then stores it under /verif/seeded/<name>/ (patch.diff, demo.rs, meta.json), applies it to /repo, runs the given
checks (default: the check of the property itself) in the quick tier, and reverts /repo (git checkout -- .)."""
import json, os, subprocess, sys, time, shutil

def _save_evidence():
    import shutil, os
    shutil.rmtree("/verif/target/tmp/evidence.bak", ignore_errors=True); os.makedirs("/verif/target/tmp", exist_ok=True)
    shutil.copytree("/verif/evidence", "/verif/target/tmp/evidence.bak")
def _restore_evidence():
    # runs against a patched /repo must not leave their evidence behind: evidence files describe the unchanged tree only
    import shutil, os
    if os.path.isdir("/verif/target/tmp/evidence.bak"):
        shutil.rmtree("/verif/evidence", ignore_errors=True); shutil.copytree("/verif/target/tmp/evidence.bak", "/verif/evidence")
import atexit; _save_evidence(); atexit.register(_restore_evidence)

def sh(cmd, cwd=None, timeout=3600):
    r = subprocess.run(cmd, shell=True, capture_output=True, text=True, cwd=cwd, timeout=timeout)
    return r.returncode, r.stdout + r.stderr

def main():
    args = sys.argv[1:]
    name = None
    if "--name" in args:
        i = args.index("--name"); name = args[i + 1]; del args[i:i + 2]
    pid = args[0]; checks = args[1:] or [pid]
    name = name or pid
    wt = f"/tmp/wt/{name}" if os.path.isdir(f"/tmp/wt/{name}") else f"/tmp/wt/{pid}"
    env = f"CARGO_TARGET_DIR={wt}/target CARGO_NET_OFFLINE=true"
    patch = f"{wt}/patch.diff"; demo = f"{wt}/demo.rs"
    assert os.path.exists(patch) and os.path.exists(demo), "patch.diff / demo.rs missing"
    # the demo must use the worktree's tests/ dir
    os.makedirs(f"{wt}/tests", exist_ok=True); shutil.copy(demo, f"{wt}/tests/demo.rs")
    sh("git checkout -- src Cargo.toml", cwd=wt)
    rc, out = sh(f"git apply --check {patch}", cwd=wt)
    if rc != 0: print("patch does not apply:", out); return 1
    # without the patch: demo passes
    rc0, out0 = sh(f"{env} cargo test --offline --test demo 2>&1 | tail -15", cwd=wt)
    demo_passes_without = "test result: ok" in out0
    sh(f"git apply {patch}", cwd=wt)
    rc1, out1 = sh(f"{env} cargo test --offline --lib 2>&1 | grep 'test result'", cwd=wt)
    tests_pass = "144 passed; 0 failed" in out1
    rc2, out2 = sh(f"{env} cargo test --offline --test demo 2>&1 | tail -25", cwd=wt)
    demo_fails_with = "test result: FAILED" in out2 or "panicked" in out2
    print(f"[{name}] repo tests with patch: {'pass' if tests_pass else 'FAIL ' + out1.strip()}; demo without patch: {'passes' if demo_passes_without else 'FAILS'}; demo with patch: {'fails' if demo_fails_with else 'PASSES'}")
    confirmed = tests_pass and demo_passes_without and demo_fails_with
    # run the checks against /repo with the patch applied
    results = {}
    rc, st = sh("git -C /repo status --short")
    assert st.strip() == "", "/repo working tree is not clean"
    rc, out = sh(f"git -C /repo apply {patch}")
    if rc != 0: print("patch does not apply to /repo:", out); return 1
    try:
        for c in checks:
            t0 = time.time()
            rc, out = sh(f"./check {c} quick 2>/dev/null", cwd="/verif")
            viol = [l for l in out.splitlines() if l.startswith("VIOLATION") or l.strip().startswith("signature:")]
            results[c] = {"exit": rc, "detected": rc == 1 and any(l.startswith("VIOLATION") for l in viol), "seconds": round(time.time() - t0), "lines": viol[:6]}
            print(f"[{name}] check {c}: exit {rc} {'DETECTED' if results[c]['detected'] else 'MISSED'} in {results[c]['seconds']}s  {' ; '.join(viol[:4])}")
    finally:
        sh("git -C /repo checkout -- .")
    d = f"/verif/seeded/{name}"; os.makedirs(d, exist_ok=True)
    shutil.copy(patch, f"{d}/patch.diff"); shutil.copy(demo, f"{d}/demo.rs")
    desc = open(f"{wt}/description.txt").read() if os.path.exists(f"{wt}/description.txt") else ""
    meta = {"property": pid, "confirmed": confirmed, "repo_tests_pass_with_patch": tests_pass, "demo_passes_without_patch": demo_passes_without, "demo_fails_with_patch": demo_fails_with,
            "what_i_ran": [f"in a scratch worktree: cargo test --offline --lib (with patch), cargo test --offline --test demo (with and without patch)", f"git -C /repo apply patch.diff; ./check {' '.join(checks)} quick; git -C /repo checkout -- ."],
            "checks": results, "needs_to_manifest": desc}
    json.dump(meta, open(f"{d}/meta.json", "w"), indent=1, ensure_ascii=False)
    return 0

sys.exit(main())
