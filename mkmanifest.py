#!/usr/bin/env python3
"""Generates /verif/MANIFEST.json from the table below (kept as a script so the manifest is always schema-shaped)."""
import json, subprocess

CHECKS = {
 "C19": ("exploration", "generated projects on disk; differential testing of the real `asca` binary (subprocess) against the library; conversion round trips",
         "Generated rule / word / alias files are written to fresh directories and the release binary built from /repo's working tree is run on them (`run -r/-w/-l/-o`, `run -j`, `conv asca`, `conv json`); the output file must equal asca::run called in the harness on the intended content, nothing may be written when the library fails, and json -> files -> json must be the identity.",
         "Trusted: the generator's own writers (documented file shapes only); the library linked into the harness is built from the same tree (with the hook feature). Timeouts give exit 2.", "DESIGN.md §5 C19"),
 "C20": ("exploration", "generated project trees (chains, forks, filters, aliases, cycles); subprocess runs of `asca seq` / `conv tag` against the harness's own composition",
         "Generated config trees with `%` chains and forks, `!`/`~` filters in mixed case, a deromaniser on the root tag and, in one case of six, a reference cycle or dangling reference are written to disk; `asca seq -o -y` (all tags and `-t T`) must write for every tag exactly the words obtained by composing asca::run over the filtered rule files as configured, `conv tag -r` must export a rule history that reproduces them, and invalid configs must be rejected with a non-zero exit and no crash.",
         "Trusted: the harness's composition (filter semantics typed from doc-cli.md). Output files are compared as sequences of non-empty lines (the blank separator between appended word files is undocumented). Only substitution rules are generated so that no stage fails; tags whose intermediate output contains � have no staged result and are skipped for the export comparison.", "DESIGN.md §5 C20"),
 "C15": ("exploration", "generated romaniser / deromaniser tables over fresh strings; model rewrite of the default rendering + encode/decode equivalence",
         "Romaniser tables (plain IPA, groups, matrices, `$`; replacement, `+` suffix, `*`) are applied to the result of generated sound changes and compared with the harness's own rewrite of the default rendering of the structural result, while the alias-free run must equal the default rendering; deromaniser tables map fresh strings to segments (plain, long, stressed, sequences) and the encoded word must parse to the same structural word and give the same run result.",
         "Trusted: the 30-line model of the documented romanisation on the sub-domain where it is unambiguous (no length/stress/tone parameters in romaniser inputs, plain-pool words), the structural hook. Fresh strings are Cyrillic capitals / CJK, which no lexer or IPA table uses.", "DESIGN.md §5 C15"),
 "C17": ("fault_enumeration", "fault catalogue × every (group, line) position of valid backgrounds; formatter output parsed and checked; plus random Err formatting",
         "Every fault of a catalogue (52 syntax faults, 35 runtime faults, 3 position-less ones, 31 alias faults, 12 bad words; ~80 distinct error variants reached) is planted at every position of valid rule-group lists / alias lists / word lists; run must return Err, the matching formatter must not panic, must echo the planted line and name its position, and every caret must lie within the line. Random rule lists, mutations and noise add arbitrary Err values whose formatted position must exist.",
         "Trusted: the catalogue (entries that do not fail are reported, not judged) and the parser of the formatter's plain-text layout (NO_COLOR). DeletionOnlySeg/DeletionOnlySyll carry no position: listed known findings.", "DESIGN.md §5 C17"),
 "C13": ("exploration", "exhaustive synonym × position table + generated rules/words under every documented respelling; differential oracle",
         "Every advertised spelling of every feature, node and suprasegmental name is tried in every syntactic position that takes a matrix (12 in rules, 5 in alias lines) against the first spelling of its group; generated rules are printed in the canonical style and in each alternative style (arrows, `//`, `∅`, ellipsis forms, angle brackets, matrix spaces, trailing comment, Latin alphas, renumbered variables) and generated words are respelled with every documented input alternative; both spellings must give equal outputs or the same error variant.",
         "Trusted: the transcribed synonym table (the advertised list) and the printer. The doubled-segment respelling is not applied to words containing click-initial graphemes (a copy would be read together with the neighbouring stop as one click segment, which is a different word by the manual).", "DESIGN.md §5 C13"),
 "C12": ("exploration", "differential testing of shorthand rules against mechanically produced expansions (AST transformations) + exhaustive group-letter slice",
         "Condensed rules vs their sub-rules, `_,X` vs `X_ , _X'`, group letters vs the manual's matrices (also exhaustively over all segments), optionals vs the environment set of their explicit repetitions, and `A B > &` vs `A=1 B=2 > 2 1` are generated as pairs on the harness's own AST and applied to the same words; both sides must fail or give structurally equal words.",
         "Trusted: the AST transformations (written from the manual) and the structural hook. The long-segment metathesis divergence is a listed known finding.", "DESIGN.md §5 C12"),
 "C10": ("exploration", "metamorphic testing over generated rule sequences and the shipped example project: staged == at-once == regrouped",
         "For generated rule sequences and for every .rsca file of the shipped Indo-European project, the result of running all rules at once is compared (public API, rendered strings) with running a prefix, re-parsing its rendered output and running the rest — for every split point — and with the same rules regrouped with empty groups interleaved.",
         "Only splits whose intermediate text has no � are judged. A divergence is attributed to a listed C08/C09 finding only after the intermediate word (fetched structurally for the diagnosis) has been shown to be ill-formed in a listed way or to contain a segment that does not round-trip on its own; every other divergence alarms.", "DESIGN.md §5 C10"),
 "C11": ("exploration", "metamorphic testing: list runs vs singleton runs under permutation, sublists, duplication and phrases; first-error rule",
         "Each word of a generated list is run alone; the list as given, reversed, rotated, thinned and with a duplicate must give exactly the singleton results in order (public API), a two-word phrase must give the space-joined singleton results, and when some word fails the list must fail with the error of the first failing word in phase order (word parsing before rule parsing before application).",
         "Errors are compared by variant (plus the word text for word syntax errors), since positions in the word list legitimately differ. Rule syntax errors raised only when a rule is split into sub-rules (UnbalancedRule*, InsertDelete/Metath) are application-phase errors.", "DESIGN.md §5 C11"),
 "C16": ("exploration", "random rule-group histories: trace_changes / get_trace_string vs independently computed per-group states and run",
         "For generated histories of named rule groups (including empty, comment-only and non-firing groups) and phrases, the changes reported by trace_changes must be exactly the groups after which the independently computed structural state differs from the previous one, each with that state; the last state must render to what run returns; get_trace_string must print the same sequence; all three entry points agree on Ok/Err.",
         "Trusted: the structural hook used to compute the per-group states independently (words outer, groups inner — the run loop's order, not the trace loop's).", "DESIGN.md §5 C16"),
 "C07": ("exploration", "generated restating rules (identity oracle) + exhaustive alpha identities + neighbour model for variables in contexts",
         "Restating rules `X1=1..Xk=k > 1..k` over every bindable element kind with full-grammar environments must leave generated words structurally unchanged; `[αF] > [αF]` / `[-αF] > [-αF]` for every feature, node and suprasegmental, and `%:[αstress] > [αstress]`, are enumerated over all bases, base+1 diacritic and the 36 suprasegmental states; `A > B / X=1 _ 1` and `A > B / %=1 _ 1` are compared with a neighbour model over all small words.",
         "Trusted: the structural hook, the neighbour model (10 lines). Only Ok results are judged in the random part. The secondary-stress alpha collapse is a listed known finding.", "DESIGN.md §5 C07"),
 "C14": ("exploration", "AST-classified segment-only and prosody-only rules with full-grammar environments; untouched-tier equality oracle",
         "Rules are classified by construction on the generator's AST as segment-only or prosody-only and given environments/exceptions from the full grammar; on every Ok result the tier the rule must not touch (syllable count, stress, tone, boundaries — resp. the flattened bundle sequence) is compared with the input's.",
         "Trusted: the generator's classification and the structural hook. Boundary insertion is generated with two-sided segment contexts only (one-sided boundary contexts are known C02 hang findings).", "DESIGN.md §5 C14"),
 "C06": ("exploration", "full-grammar rule generation with a planted absent literal; identity oracle on the structural word",
         "Random full-grammar rules (all four rule types and every construct) into which a literal that does not occur in the word is planted as a mandatory element of every input term (insertion: of the context), plus blank/comment lines; whenever the call returns Ok the structural word must be unchanged and asca::run must print what the empty rule list prints.",
         "Trusted: the planter (AST-level, independent of asca's parser) and the structural hook. Only Ok results are judged. Two insertion fall-back shapes are listed known findings.", "DESIGN.md §5 C06"),
 "C08": ("exploration", "random rule-group histories biased to deletion/metathesis/boundary edits; structural invariants checked after every group",
         "Histories of 1-6 rule groups from a prosody-biased template generator and the full-grammar generator are applied to generated words; after every group the internal word must satisfy the structural invariants of the property (≥1 syllable, no empty syllable, tone ≤4 non-zero digits, no stray bits, no payload of an absent sub-node, empty place absent), read from the raw fields.",
         "Trusted: the structural hook (apply_groups) and the documented bit layout. Only histories that return Ok are judged. Empty syllables produced by insertion rules with `%`/variables are a listed known finding.", "DESIGN.md §5 C08"),
 "C03": ("exploration", "bounded-exhaustive + random differential testing against an independent reference interpreter of the basic rule fragment",
         "Rules of the basic fragment (one segment in, one segment or feature change out, context, exception, environment sets, `#`, `$`) are enumerated exhaustively per two-factor slice and sampled randomly over the full product, and applied to all small words in every syllabification plus random words; asca's structural result must equal that of a reference interpreter written from the manual. Discards by the property's precondition (equal adjacent segments) are counted.",
         "Trusted: the reference interpreter (≈80 lines) and the manual's group definitions; the structural hook. Not exhaustive over the full product of contexts (≈10^8 rules): 1/64 (quick) or 1/8 (thorough) of the two-element contexts are enumerated, the rest is sampled.", "DESIGN.md §5 C03"),
 "C04": ("exploration", "exhaustive enumeration (all bases and base+1 diacritic × all feature/node/alpha rules) against a bit-level reference model",
         "Every base phone and every base+diacritic segment, alone and inside a three-syllable word, under every `[] > [±F]`, `[] > [±node]`, `[±F]/[±node] > marker`, `[αF] > [±αG]` (26×26) and node-alpha rule; asca's structural result is compared with a 30-line bit-level model of matching and setting. Exhaustive for that finite space in both tiers.",
         "Trusted: the feature→(node,bit) chart typed from the manual; conversion from asca::Segment through public accessors (checked separately by C18).", "DESIGN.md §5 C04"),
 "C05": ("exploration", "exhaustive enumeration of 36 states × 405 modifier combinations × 7 element kinds × 3 positions against a table model of the manual",
         "Every suprasegmental state of a target segment/syllable under every combination of length, stress and tone modifiers, used as an input modifier on IPA/group/matrix/% and as an output matrix on a segment or %; match outcome and resulting state are compared with a table model typed from the manual (validity predicate where the manual leaves a choice). Exhaustive in both tiers.",
         "Trusted: the table model's reading of the manual's three-way tables; where the manual is silent (length in a matrix applied to %, [-sec.stress] on a secondary-stressed syllable) every consistent behaviour is accepted.", "DESIGN.md §5 C05"),
 "C01": ("exploration", "differential across K fresh worker processes (distinct std hash seeds) + repeat call + word-order metamorphic relation; exhaustive tie slice",
         "The same generated and enumerated inputs are run in 8 (quick) / 16 (thorough) fresh processes whose transcripts (Ok strings or Debug of the Err, plus the trace string) are compared case by case by the driver; inside each process a repeated call and a reversed word list must agree. The tie slice enumerates every base / base+diacritic under every single feature change, i.e. all segments whose rendering needs a tie-break or diacritic composition.",
         "The per-process hash seed is chosen by the OS, not by VERIF_SEED (that is the property's quantifier); a hash-order dependence on a tie-sensitive input is missed with probability about 2^-(K-1) per input, and thousands of such inputs are run. Replay re-runs the saved case in 12 fresh processes.", "DESIGN.md §5 C01"),
 "C09": ("exploration", "exhaustive enumeration of base+≤2 diacritics and single-feature variants + generated words, round-trip oracle parse(render(w)) == w",
         "Complete enumeration of the ~375k segment texts asca accepts as base + up to two diacritics and of every single feature / sub-node change of base(+1 diacritic) (built structurally), plus generated multi-syllable words; each is rendered and re-parsed and compared structurally (and the text must be a fixed point of the empty rule list). The enumerated part is exhaustive for the stated space; the word part is random search.",
         "Trusted: the hook's parse_word/render_word/word_from_parts wrap Word::new / Word::render unchanged. Bundles listed in known/C09_bundles.txt and click resegmentation are tolerated as known findings.", "DESIGN.md §5 C09"),
 "C02": ("exploration", "grammar-directed + mutation + noise generation (proptest over a choice tape) under catch_unwind and a step-counter hook; libFuzzer in the thorough tier",
         "Random search over four generated input sources (zero-tolerance structured fragment, full-grammar structured, token mutations of valid rules, character noise) through run / get_trace_string / trace_changes and the error formatters; a panic, an abort of the worker, or exhaustion of a step budget counted at every loop head is a violation with a located, replayable signature. Listed known findings (exact signatures) are tolerated and printed; anything else alarms.",
         "Trusted: the tick hook covers every unbounded loop (bounded copy loops are not instrumented); the budget is far above any terminating case seen (max ratio reported in the evidence). Absence of violations is not a proof of termination.", "DESIGN.md §5 C02"),
 # id: (level category, technique, level text, level note, design_ref)
 "C18": ("exploration", "exhaustive enumeration against a bit-layout model (all 65537 places x setters; all node bytes x features)",
         "Complete enumeration of the finite accessor space: every Place value, every setter with every in-range value and None, and every value of each byte node with every single-feature mask, compared equation by equation with a model that decodes the documented bit layout. Exhaustive for the stated space, so any accessor that breaks a get/set/frame/normalisation law for some value is found.",
         "Trusted: the layout documented in place.rs's doc comment; values above a sub-node's documented range are not passed (debug_assert'ed precondition).", "DESIGN.md §5 C18"),
}
PLANNED = {f"C{i:02d}" for i in range(1, 21)} - set(CHECKS)

def repo_hook_commits():
    try:
        out = subprocess.check_output(["git", "-C", "/repo", "log", "--format=%H %s"], text=True)
        return [l.split()[0] for l in out.splitlines() if "verification hook" in l or "verif hook" in l or l.split(" ", 1)[1].startswith("hook:")]
    except Exception:
        return []

m = {
 "version": 1,
 "setup_cmd": "./setup.sh",
 "hooks": {
   "guard": "cargo feature `verif` (cfg(feature = \"verif\"))",
   "enable": "the harness crate /verif/harness depends on asca = { path = \"/repo\", features = [\"verif\"] }; every ./check runs `cargo build --release --offline` first, so /repo's current working tree is rebuilt with the hooks on",
   "baseline_off_cmd": "cd /repo && cargo test --workspace --no-fail-fast --offline",
   "source_commits": repo_hook_commits(),
   "add_only": True,
 },
 "engines": [
   {"name": "vh", "path": "/verif/harness", "serves_properties": sorted(CHECKS), "kind_free_text": "Rust harness (proptest 1.11 TestRunner over a choice tape, exhaustive enumerators, 16 worker processes, reference models, step-budget + catch_unwind guards)"},
   {"name": "fz_run", "path": "/verif/fuzzing/fuzz", "serves_properties": ["C02"], "kind_free_text": "cargo-fuzz / libFuzzer target (ASan, in-target oracle: panic, step budget, formatter totality); started by `vh` in C02's thorough tier, flagged inputs are re-checked by the harness with its exact signatures"},
 ],
 "checks": [],
 "not_applicable": [{"property_id": p, "reason": "not claimed yet: its check is designed (DESIGN.md §5) but not built at this commit"} for p in sorted(PLANNED)],
 "notes": "Entry point ./check <ID> quick|thorough (|--replay <file>). Exit 0 held / 1 VIOLATION / 2 inconclusive. Known findings: /verif/known_findings.txt. Regression replays: /verif/regress/<ID>/.",
}
for pid in sorted(CHECKS):
    cat, tech, text, note, ref = CHECKS[pid]
    m["checks"].append({
      "property_id": pid, "quick_cmd": f"./check {pid} quick", "thorough_cmd": f"./check {pid} thorough",
      "evidence_file": f"/verif/evidence/{pid}.json", "replay_cmd_template": f"./check {pid} --replay {{path}}", "engine": "vh",
      "level_claimed": {"category": cat, "text": text, "design_ref": ref}, "level_note": note, "technique": tech,
    })
json.dump(m, open("/verif/MANIFEST.json", "w"), indent=1, ensure_ascii=False)
print("wrote MANIFEST.json:", len(m["checks"]), "checks")
